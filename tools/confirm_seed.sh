#!/bin/bash
# tools/confirm_seed.sh <PROP> <a|b> [extra check ids...]  - confirm a sub-agent's change in its scratch worktree,
# store it under /verif/seeded/<PROP>-<x>/ and run the property's quick check against it.
ID=$1; X=$2; shift 2
W=/tmp/mut/$ID; O=$W/out
[ -f $O/$X.diff ] || { echo "no $O/$X.diff"; exit 2; }
cd $W && git checkout -q -- . && git status --short | grep -v '^?? out/' && { echo "worktree dirty"; exit 2; }
BASE=/tmp/mut/baseline_fail.txt
if [ ! -f $BASE ]; then /venv/bin/python -m pytest -q -p no:cacheprovider --timeout=900 -rf 2>&1 | grep '^FAILED' | sed 's/ - .*//' | sort > $BASE; fi
/venv/bin/python $O/${X}_demo.py >/dev/null 2>&1; d0=$?
git apply $O/$X.diff || { echo "patch does not apply"; exit 2; }
/venv/bin/python -m pytest -q -p no:cacheprovider --timeout=900 -rf > /tmp/mut/suite_$ID$X.txt 2>&1
tailline=$(tail -1 /tmp/mut/suite_$ID$X.txt)
grep '^FAILED' /tmp/mut/suite_$ID$X.txt | sed 's/ - .*//' | sort > /tmp/mut/fail_$ID$X.txt
same=$(diff -q $BASE /tmp/mut/fail_$ID$X.txt >/dev/null && echo same || echo DIFFERENT)
/venv/bin/python $O/${X}_demo.py > /tmp/mut/demo_$ID$X.txt 2>&1; d1=$?
git checkout -q -- .
echo "demo unchanged rc=$d0 | demo with change rc=$d1 | suite: $tailline | failing set: $same"
if [ "$d0" != 0 ] || [ "$d1" = 0 ] || [ "$same" != same ]; then echo "NOT CONFIRMED"; exit 1; fi
S=/verif/seeded/$ID-$X; mkdir -p $S
cp $O/$X.diff $S/patch.diff; sed "s#/tmp/mut/$ID#/repo#g" $O/${X}_demo.py > $S/demo.py; cp $O/${X}_notes.txt $S/notes.txt 2>/dev/null
cd /verif
out=$(tools/try_patch2.sh $S/patch.diff $ID "$@")
echo "$out"
/venv/bin/python - "$S" "$ID" "$X" "$tailline" "$d0" "$d1" <<PY
import json,sys,re
S,ID,X,tail,d0,d1=sys.argv[1:7]
out=open('/dev/stdin').read() if False else ""
PY
echo "$out" > $S/check_output.txt
