#!/usr/bin/env python3
"""regenerates /verif/MANIFEST.json from the table below; properties without a built check stay in not_applicable"""
import json
import os

V = os.path.dirname(os.path.dirname(os.path.abspath(__file__)))
props = [json.loads(l) for l in open(os.path.join(V, "properties.jsonl"))]

TB = ("Trusted: CPython executing auditok's source over proxy values; the AST pass of sxv/loader.py (builtins in call "
      "position, .join, slice loads); z3 5.1; the stated stubs. Every sat model is replayed on the unmodified package before it is reported.")

CHECKS = {
    "C01": dict(level="model_checking", tech="symbolic execution of the real tokenizer, z3 per path: inductive step (Inv03, unbounded streams) + bounded runs",
                text="Inductive step over the real _process/_post_process from an arbitrary invariant state (streams of any length, unbounded parameters) plus bounded whole runs (N<=6 quick / 10 thorough) through tokenize() in its three delivery modes, with ordinary, falsy-and-empty and mixed frame objects and validators answering a bool or True/None; every path obligation decided by z3.",
                ref="§5 C01"),
    "C02": dict(level="model_checking", tech="symbolic execution + z3: closed-form constructor query over Z^6, inductive step, bounded runs with symbolic initial phase",
                text="Constructor accept/reject proved for all integer 6-tuples; length bounds by inductive step (init_min<=1) and bounded runs with unbounded parameters incl. symbolic init_min/init_max_silence.",
                ref="§5 C02"),
    "C03": dict(level="model_checking", tech="symbolic execution + z3: inductive step with ghost run-length array, bounded runs with direct formulas over validity bits",
                text="Silence-run bound (counted across adjacent cuts), some/first/last frame valid: inductive for init_min<=1, bounded (N<=6/10) with symbolic initial phase.",
                ref="§5 C03"),
    "C04": dict(level="model_checking", tech="symbolic differential: real tokenizer vs declarative greedy segmentation on the same symbolic stream, z3 decides equality per path",
                text="Bounded equivalence (N<=6 quick / 10 thorough frames, unbounded parameters, 4 modes) between the real tokenizer and a reference written from the statement; consequences asserted separately.",
                ref="§5 C04"),
    "C05": dict(level="model_checking", tech="symbolic execution of split() over an uninterpreted byte sequence (segment lists + LIA), z3 decides byte identity, timing and equality with the tokenizer segmentation",
                text="Real split()/AudioRegion.split chain on inputs of <=4 (quick) / 6 (thorough) analysis windows with sample count, window size and window counts as unbounded integers; formats and rates enumerated; inputs bytes, regions (with start / conflicting kwargs), readers, recording readers.",
                ref="§5 C05"),
    "C06": dict(level="other", tech="exact floating-point SMT lemma (z3 QF_FP, bit-exact doubles) over the real split()/_duration_to_nb_windows + LIA wiring/accept-reject query with a recording tokenizer",
                text="K: for every IEEE double duration/window in the stated range the window count that reaches the tokenizer lies in the statement's tolerance band (3 QF_FP lemmas through the real split()). D: with durations as exact rationals, the three counts reach the right tokenizer slots, are computed with the reader's block duration or analysis_window, and ValueError is raised exactly in the documented cases.",
                ref="§5 C06", note="Trusted: z3's FloatingPoint theory as a model of CPython's binary64 arithmetic (RNE; ceil/floor as roundToIntegral); the D half idealises floats as rationals and abstracts the three conversions."),
    "C07": dict(level="model_checking", tech="symbolic execution through a numpy shim (sqrt/log10/square uninterpreted with instantiated axioms), one z3 query per configuration over symbolic bytes and threshold",
                text="Real energy validator on windows of every width 1/2/4 x 1-3 (4) channels x 1-2 (3) samples per channel with every byte and the threshold symbolic, all channel selectors incl. out-of-range and unknown; decision == statement, monotone in the threshold, stateless; plus windows of 5000/9000 samples with three symbolic samples.",
                ref="§5 C07", note="Trusted in addition: the numpy shim (self-validated against numpy each run); float64 rounding inside numpy is outside the claim."),
    "C08": dict(level="model_checking", tech="symbolic execution + z3: 3+N real runs per path (generator, callback, list, every prefix) with a counting source",
                text="Hand-over moment, single end-of-stream request, delivery-mode equality and prefix consistency decided per path for streams of <=5 (quick) / 8 (thorough) frames with unbounded parameters; split() laziness on the byte-level harness.",
                ref="§5 C08"),
    "C09": dict(level="model_checking", tech="symbolic differential: real split() through every container kind / alias spelling (either keyword order) on the same symbolic bytes inside one path, z3 decides region-list equality",
                text="12 container kinds, 12 alias spellings (incl. explicit None and zero values) and max_read (quarter-sample resolution, through bytes, regions, sources, lazy wav) compared with the run on raw bytes for inputs of <=3 (quick) / 4 (thorough) windows with unbounded sample count, window size and counts.",
                ref="§5 C09"),
    "C10": dict(level="model_checking", tech="symbolic execution over an uninterpreted byte sequence (segment lists, LIA lengths), z3 decides block identity and existence",
                text="K consecutive reads (6 quick / 12 thorough) of the real AudioReader stack with source length, block, hop and max_read as unbounded integers; all overlap/limiter/recorder combinations and five input kinds (incl. standard input with short read1 chunks), a premature read before open(); block/hop sizes from bit-exact doubles == floor(fl(dur*rate)) at five rates (QF_FP lemma). Where a changed size computation leaves the FP fragment, z3-chosen doubles next to an integer product are replayed on the real constructor.",
                ref="§5 C10"),
    "C11": dict(level="model_checking", tech="symbolic execution + z3 against a model state; file sources through I/O stubs",
                text="Buffer source from an arbitrary position through every sequence of K operations (2 quick / 3 thorough) with unbounded arguments; raw/wav/stdin sources through every sequence of 4/5 operations (read, read(None), close/open, redundant open; stdin may deliver short chunks through read1 and goes on after close/open); bit-exact int(rate*ms/1000) lemma by cvc5 for |rate*ms| <= 2^24 (quick) / 2^49 (thorough).",
                ref="§5 C11"),
    "C12": dict(level="model_checking", tech="symbolic schedules: real worker threads under a baton scheduler, every scheduling decision and time-out forked through the engine within a pre-emption bound; z3 decides input-path feasibility",
                text="TokenizerWorker + 1-3 recording observers (also a real PrintWorker) on 2-4 (quick) / up to 7 (thorough) windows with symbolic activity; <=2 (3) pre-emptive switches, <=1 (2) spurious time-outs per worker; also partial last windows, a main thread that returns without joining, workers started by hand, invalid parameters, concrete entirely active streams of 70-260 (600) windows, and energy detection configured through the worker's own keywords (eth / energy_threshold): observers' logs == detections == split(); all threads end; no deadlock.",
                ref="§5 C12-C14", note="Trusted: the cooperative scheduler as a model of CPython threads switching at queue operations and joins; exhaustive forking (not a closed-form argument) along the schedule dimension."),
    "C13": dict(level="model_checking", tech="symbolic schedules as C12 with the real StreamSaverWorker (symbolic cache threshold), AudioEventsJoinerWorker, RegionSaverWorker over wave stubs",
                text="Saved stream == blocks read (header, closed file), joined file == split_and_join_with_silence(), one correctly named file per detection, under every schedule within the bounds; a concrete 70 000-frame stream saved, joined and exported as raw / wav (with stale temp files present); the saver alone on fully symbolic audio content.",
                ref="§5 C12-C14", note="Trusted: as C12, plus the wave/open write stubs (replays use real wav files)."),
    "C14": dict(level="model_checking", tech="symbolic schedules as C12 with the main thread's stop_all() schedulable at every point",
                text="After a stop at any point: all threads finished, observers' log == detections of split() on exactly the blocks read, saved wav closed and holding those blocks.",
                ref="§5 C12-C14", note="Trusted: as C12."),
    "C15": dict(level="model_checking", tech="symbolic execution + z3: unbounded-LIA formatter kernel, symbolic option wiring against split(), exhaustive end-to-end runs of cmdline.main under the cooperative scheduler",
                text="Formatter proved for all durations p/q; option values proved to reach split() and the reader unchanged for all rationals; cmdline.main(argv) for 32 argv templates x every activity pattern of 5 (quick) / 7 (thorough) windows: printed lines, files, exit status.",
                ref="§5 C15", note="Trusted: cooperative scheduler with one fair schedule for the end-to-end part; argparse; real numpy on concrete loud/quiet windows; file/wave stubs."),
    "C16": dict(level="model_checking", tech="symbolic execution + z3 (QF_LIA + byte-segment normalisation): slice semantics for all integers n, a, b",
                text="Real AudioRegion.__getitem__ and the seconds/milliseconds views for unbounded region length and bounds; time bounds as exact rationals.",
                ref="§5 C16"),
    "C17": dict(level="model_checking", tech="symbolic execution + z3 (LIA segment normalisation, sequence theory for ==): region algebra over independent uninterpreted byte sequences",
                text="+, +=, sum, join of up to 4/5 regions (mismatch in rate, width, channels, or width and channels with equal frame size), repetition and division by up to 6/8, make_silence for all durations p/q, construction for any byte count, immutability (assignment and deletion), equality; all lengths unbounded.",
                ref="§5 C17"),
    "C18": dict(level="model_checking", tech="symbolic differential through in-memory file/wave stubs, z3 decides byte identity and the load(skip,max_read) slice",
                text="save/to_file then load/from_file for 10 name/format spellings, eager and lazy, with unbounded region length; load(skip,max_read) for all quarter-sample durations incl. past-the-end and zero; numpy export for small windows.",
                ref="§5 C18"),
    "C19": dict(level="model_checking", tech="symbolic execution + z3 over every operation history of length K",
                text="Every history of 5 (quick) / 7 (thorough) operations out of read/rewind/.data, each followed by an audit (rewind, data, read, read), on a recording reader with unbounded n, block, hop, max_read, mono and multichannel; recordings of 1100 (5000) blocks; non-recording readers keep data/rewind hidden.",
                ref="§5 C19"),
    "C20": dict(level="model_checking", tech="symbolic execution + z3: stale-state over-approximation and real two-run histories vs a fresh object",
                text="Tokenizer with every per-run field arbitrary vs fresh (over-approximation of any history) and real two-run histories (complete, partially consumed, closed, both generators requested first, closed while the later run is in progress); other objects (bytes, regions, readers, rewound recorders with an abandoned pass in between, buffer sources, validators, array windows, two live split() generators with the default validator) by differential runs in one path.",
                ref="§5 C20"),
}


def main():
    checks = []
    for p in props:
        c = CHECKS.get(p["id"])
        if not c:
            continue
        checks.append({
            "property_id": p["id"],
            "quick_cmd": "./check %s --tier quick" % p["id"],
            "thorough_cmd": "./check %s --tier thorough" % p["id"],
            "evidence_file": "/verif/evidence/%s.json" % p["id"],
            "replay_cmd_template": "./check %s --replay {path}" % p["id"],
            "engine": "sxv",
            "level_claimed": {"category": c["level"], "text": c["text"], "design_ref": "DESIGN.md " + c["ref"]},
            "level_note": c.get("note", TB),
            "technique": c["tech"],
        })
    na = json.load(open(os.path.join(V, "tools", "not_applicable.json")))
    m = {
        "version": 1,
        "setup_cmd": "./bootstrap.sh",
        "hooks": {"guard": "AMSEHILI_AUDITOK_VERIF",
                  "enable": "no source hooks: checks load /repo/auditok/*.py through an AST pass at run time (sxv/loader.py); the variable is exported by ./check but nothing in /repo reads it",
                  "baseline_off_cmd": "cd /repo && /venv/bin/python -m pytest -ra -q -p no:cacheprovider --timeout=900 --continue-on-collection-errors",
                  "source_commits": [], "add_only": True},
        "engines": [{"name": "sxv", "path": "/verif/sxv", "serves_properties": sorted(CHECKS),
                     "kind_free_text": "symbolic execution of auditok's own source (proxy values + DFS path re-execution, 16-way parallel) with z3 5.1 deciding every path obligation; counterexamples replayed on the unmodified package"}],
        "checks": checks,
        "not_applicable": [{"property_id": p["id"], "reason": na.get(p["id"], "check not built yet (framework under construction)")}
                           for p in props if p["id"] not in CHECKS],
        "notes": "fix: commits in /repo are listed in known_findings.json (status fixed). See DESIGN.md.",
    }
    json.dump(m, open(os.path.join(V, "MANIFEST.json"), "w"), indent=1)
    print("checks:", len(checks), "not_applicable:", len(m["not_applicable"]))


if __name__ == "__main__":
    main()
