#!/bin/bash
# tools/try_patch.sh <patch.diff> <ID> [<ID>...]   - apply a patch to /repo, run quick checks, undo.
# Evidence files are preserved (restored afterwards) so that a mutant run never leaves mutant evidence behind.
P=$(readlink -f "$1"); shift
cd "$(dirname "$0")/.."
git -C /repo diff --quiet || { echo "/repo has local changes, refusing"; exit 2; }
git -C /repo apply "$P" || { echo "patch does not apply"; exit 2; }
TMP=$(mktemp -d /tmp/sxv-ev.XXXX); cp -r evidence "$TMP/" 2>/dev/null
for id in "$@"; do
  out=$(VERIF_TIER=${TIER:-quick} ./check "$id" 2>&1); rc=$?
  echo "== $id rc=$rc"; echo "$out" | grep -E "VIOLATION|what:|HARNESS|KNOWN|tier=" | head -8
done
git -C /repo checkout -- .
rm -rf evidence; cp -r "$TMP/evidence" . 2>/dev/null; rm -rf "$TMP"
rm -f replays/*.json
