#!/bin/bash
# tools/refresh_seed.sh <ID-x> [check ids...]  - re-run the quick check(s) against a stored seeded change (scratch worktree,
# /repo untouched) and rewrite seeded/<ID-x>/check_output.txt; default check: the seed's own property.
cd "$(dirname "$0")/.."
D=$1; shift
ids="$@"; [ -z "$ids" ] && ids=${D%%-*}
out=$(tools/try_patch2.sh seeded/$D/patch.diff $ids 2>&1)
echo "$out" > seeded/$D/check_output.txt
echo "$D: $(echo "$out" | grep -E 'rc=' | tr '\n' ' ') $(echo "$out" | grep -c VIOLATION) violation line(s)"
