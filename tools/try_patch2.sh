#!/bin/bash
# tools/try_patch2.sh <patch.diff> <ID> [<ID>...]  - like try_patch.sh but on a scratch worktree of /repo (SXV_REPO), so that
# /repo stays untouched and several patches can be tried in parallel; evidence and replays go to a temp dir.
P=$(readlink -f "$1"); shift
cd "$(dirname "$0")/.."
W=$(mktemp -d /tmp/sxv-wt.XXXXXX); rmdir $W
git -C /repo worktree add -q --detach $W HEAD || exit 2
git -C $W apply "$P" || { echo "patch does not apply"; git -C /repo worktree remove --force $W; exit 2; }
T=$(mktemp -d /tmp/sxv-out.XXXXXX)
for id in "$@"; do
  out=$(SXV_REPO=$W SXV_EVIDENCE_DIR=$T SXV_REPLAY_DIR=$T VERIF_TIER=${TIER:-quick} ./check "$id" 2>&1); rc=$?
  echo "== $id rc=$rc"; echo "$out" | grep -E "VIOLATION|what:|HARNESS|KNOWN|INCONCLUSIVE|tier=" | head -8
done
git -C /repo worktree remove --force $W; rm -rf $T
