#!/usr/bin/env python3
"""(re)writes seeded/<ID>-<x>/meta.json from notes.txt and the recorded check output"""
import json, os, re, sys
V = os.path.dirname(os.path.dirname(os.path.abspath(__file__)))
S = os.path.join(V, "seeded")
for d in sorted(os.listdir(S)):
    p = os.path.join(S, d)
    if d.startswith("_") or not os.path.isfile(os.path.join(p, "patch.diff")):
        continue
    prop = d.split("-")[0]
    notes = open(os.path.join(p, "notes.txt")).read().strip() if os.path.exists(os.path.join(p, "notes.txt")) else ""
    out = open(os.path.join(p, "check_output.txt")).read() if os.path.exists(os.path.join(p, "check_output.txt")) else ""
    detected = sorted(set(re.findall(r"VIOLATION property=(C\d+)", out)))
    first = re.search(r"what: (.*)", out)
    old = {}
    if os.path.exists(os.path.join(p, "meta.json")):
        old = json.load(open(os.path.join(p, "meta.json")))
    meta = {
        "property": prop,
        "origin": "independent sub-agent given only the property text and a scratch worktree",
        "files_touched": sorted(set(re.findall(r"^\+\+\+ b/(\S+)", open(os.path.join(p, "patch.diff")).read(), re.M))),
        "what_and_needs": notes,
        "confirmed": {"existing_suite_with_change": "36 failed, 579 passed, same failing set as the unchanged tree (tools/confirm_seed.sh)",
                      "demo.py": "exit 0 on the unchanged tree, exit 1 with the change applied"},
        "ran": "tools/confirm_seed.sh %s %s  (git apply in a scratch worktree, full pytest suite, demo both ways, then ./check on /repo with the patch applied and reverted)" % tuple(d.split("-")),
        "detected_by_quick_check": detected or old.get("detected_by_quick_check", []),
        "first_violation_reported": first.group(1)[:400] if first else old.get("first_violation_reported"),
        "history": old.get("history", []),
    }
    json.dump(meta, open(os.path.join(p, "meta.json"), "w"), indent=1)
    print(d, meta["detected_by_quick_check"])
