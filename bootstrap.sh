#!/bin/bash
# Offline, idempotent: overlay venv on top of /venv with z3-solver (+cvc5) from the wheelhouse.
set -e
cd "$(dirname "$0")"
V=.venv
if [ ! -x $V/bin/python ] || ! $V/bin/python -c "import z3, numpy" >/dev/null 2>&1; then
  rm -rf $V
  /venv/bin/python -m venv $V >/dev/null
  SP=$($V/bin/python -c "import sysconfig; print(sysconfig.get_paths()['purelib'])")
  echo "import site; site.addsitedir('/venv/lib/python3.12/site-packages')" > "$SP/_overlay.pth"
  PIP_NO_INDEX=1 $V/bin/python -m pip install -q --no-index --find-links /opt/veriftools/wheels z3-solver cvc5 >/dev/null 2>&1 || \
  PIP_NO_INDEX=1 $V/bin/python -m pip install -q --no-index --find-links /opt/veriftools/wheels z3-solver >/dev/null
fi
$V/bin/python -c "import z3, numpy; assert z3.get_version_string().startswith('5.')"
