"""Proxy values: SymBool, SymInt, SymRat, SymBytes, GList, Placeholder strings.
(SymFP lives in fp.py.)"""
import builtins
import math

import z3

from .engine import Engine, Unsupported, S

B8 = z3.BitVecSort(8)
SEQ = z3.SeqSort(B8)


def E():
    return Engine.cur


# ----------------------------------------------------------------- coercions
def tobool(x):
    if isinstance(x, SymBool):
        return x.t
    if isinstance(x, bool):
        return z3.BoolVal(x)
    if z3.is_expr(x):
        return x
    raise TypeError("tobool: %r" % type(x))


def toint(x):
    if isinstance(x, SymInt):
        return x.t
    if isinstance(x, bool):
        return z3.IntVal(int(x))
    if isinstance(x, int):
        return z3.IntVal(x)
    if z3.is_expr(x):
        return x
    raise TypeError("toint: %r" % type(x))


def is_intlike(x):
    return isinstance(x, (int, SymInt)) and not isinstance(x, SymBool)


# ------------------------------------------------------------------- SymBool
class SymBool:
    __slots__ = ("t",)

    def __init__(self, t):
        self.t = t

    def __bool__(self):
        return E().branch(self.t)

    def __and__(self, o):
        return SymBool(z3.And(self.t, tobool(o)))
    __rand__ = __and__

    def __or__(self, o):
        return SymBool(z3.Or(self.t, tobool(o)))
    __ror__ = __or__

    def __invert__(self):
        return SymBool(z3.Not(self.t))

    def __eq__(self, o):
        if isinstance(o, (bool, SymBool)):
            return SymBool(self.t == tobool(o))
        return bool(self) == o

    def __ne__(self, o):
        if isinstance(o, (bool, SymBool)):
            return SymBool(self.t != tobool(o))
        return bool(self) != o
    __hash__ = None

    def __format__(self, spec):
        return format(bool(self), spec)

    def __repr__(self):
        return "SymBool(%s)" % self.t


# -------------------------------------------------------------------- SymInt
class Placeholder(str):
    """the text produced by formatting a proxy; carries (value, spec)"""
    registry = {}

    def __new__(cls, value, spec):
        import hashlib
        t = getattr(value, "t", None)
        sig = "%s/%s" % (getattr(value, "num", t), getattr(value, "den", "")) if not isinstance(value, str) else value
        key = "⟦%s⟧" % hashlib.sha1(("%s|%s|%s" % (type(value).__name__, sig, spec)).encode()).hexdigest()[:10]
        s = super().__new__(cls, key)
        s.value = value
        s.spec = spec
        cls.registry[key] = s
        return s


class SymInt:
    __slots__ = ("t",)

    def __init__(self, t):
        self.t = t if z3.is_expr(t) else z3.IntVal(t)

    # arithmetic
    def __add__(self, o):
        if isinstance(o, (SymRat, float)):
            return SymRat.of(self) + o
        if not is_intlike(o):
            return NotImplemented
        return SymInt(S(self.t + toint(o)))
    __radd__ = __add__

    def __sub__(self, o):
        if isinstance(o, (SymRat, float)):
            return SymRat.of(self) - o
        if not is_intlike(o):
            return NotImplemented
        return SymInt(S(self.t - toint(o)))

    def __rsub__(self, o):
        if isinstance(o, float):
            return SymRat.of(o) - SymRat.of(self)
        if not is_intlike(o):
            return NotImplemented
        return SymInt(S(toint(o) - self.t))

    def __mul__(self, o):
        if isinstance(o, (SymRat, float)):
            return SymRat.of(self) * o
        if isinstance(o, (bytes, bytearray, SymBytes)):
            return bytes_repeat(o, self)
        if not is_intlike(o):
            return NotImplemented
        return SymInt(S(self.t * toint(o)))
    __rmul__ = __mul__

    def __neg__(self):
        return SymInt(S(-self.t))

    def __pos__(self):
        return self

    def __abs__(self):
        return SymInt(S(z3.If(self.t < 0, -self.t, self.t)))

    def __truediv__(self, o):
        if isinstance(o, int) and not isinstance(o, bool):
            if o == 0:
                raise ZeroDivisionError("division by zero")
            return SymRat(self.t, o) if o > 0 else SymRat(S(-self.t), -o)
        if isinstance(o, SymInt):
            v = concretise(o, "divisor")
            return self / v
        if isinstance(o, (SymRat, float)):
            return SymRat.of(self) / o
        return NotImplemented

    def __rtruediv__(self, o):
        v = concretise(self, "divisor")
        return o / v

    def _divmod(self, o):
        """floor division and modulo by a positive constant via fresh q, r"""
        if isinstance(o, SymInt):
            o = concretise(o, "divisor")
        if not isinstance(o, int) or isinstance(o, bool):
            return None
        if o == 0:
            raise ZeroDivisionError("integer division or modulo by zero")
        e = E()
        t = self.t
        if o < 0:
            t, o = S(-t), -o
            neg = True
        else:
            neg = False
        t = S(t)
        if z3.is_int_value(t):
            q, r = builtins.divmod(t.as_long(), o)
            q, r = z3.IntVal(q), z3.IntVal(r)
        else:
            key = (t.get_id(), o)
            cache = e._divcache
            if key in cache:
                q, r, _t = cache[key]
            else:
                q = e.fresh("q")
                r = e.fresh("r")
                e.add(z3.And(t == q * o + r, r >= 0, r < o))
                cache[key] = (q, r, t)
        if neg:
            # a // -o  with a = -t : python floor semantics: (-t) // (-o) == t // o ; r' = -r
            return SymInt(q), SymInt(S(-r))
        return SymInt(q), SymInt(r)

    def __floordiv__(self, o):
        r = self._divmod(o)
        return NotImplemented if r is None else r[0]

    def __mod__(self, o):
        r = self._divmod(o)
        return NotImplemented if r is None else r[1]

    def __divmod__(self, o):
        r = self._divmod(o)
        return NotImplemented if r is None else r

    def __rfloordiv__(self, o):
        return o // concretise(self, "divisor")

    def __rmod__(self, o):
        if isinstance(o, str):
            return o % (Placeholder(self, "%"),)
        return o % concretise(self, "divisor")

    def __rdivmod__(self, o):
        return builtins.divmod(o, concretise(self, "divisor"))

    def __and__(self, o):
        if isinstance(o, int) and o > 0 and (o & (o - 1)) == 0:
            # x & 2^k for x >= 0  ==  ((x div 2^k) mod 2) * 2^k
            if E().branch(self.t >= 0):
                q = self // o
                return (q % 2) * o
        return concretise(self, "bitand") & o
    __rand__ = __and__

    def __or__(self, o):
        return concretise(self, "bitor") | o
    __ror__ = __or__

    def __pow__(self, o):
        if isinstance(o, int) and 0 <= o <= 3:
            r = SymInt(1)
            for _ in range(o):
                r = r * self
            return r
        return NotImplemented

    # comparisons
    def _cmp(op):
        def f(self, o):
            if isinstance(o, (SymRat, float)):
                return getattr(SymRat.of(self), op)(o)
            if not is_intlike(o):
                return NotImplemented
            a, b = self.t, toint(o)
            t = {"__lt__": a < b, "__le__": a <= b, "__gt__": a > b, "__ge__": a >= b}[op]
            return SymBool(t)
        f.__name__ = op
        return f
    __lt__ = _cmp("__lt__")
    __le__ = _cmp("__le__")
    __gt__ = _cmp("__gt__")
    __ge__ = _cmp("__ge__")
    del _cmp

    def __eq__(self, o):
        if isinstance(o, (SymRat, float)):
            return SymRat.of(self) == o
        if not is_intlike(o):
            return False
        return SymBool(self.t == toint(o))

    def __ne__(self, o):
        if isinstance(o, (SymRat, float)):
            return SymRat.of(self) != o
        if not is_intlike(o):
            return True
        return SymBool(self.t != toint(o))

    def __hash__(self):
        # code that uses a number as a dictionary / cache key (functools.lru_cache): the value is fixed on this path, the others are forked
        return hash(concretise(self, "__hash__"))

    def __bool__(self):
        return E().branch(self.t != 0)

    def __index__(self):
        return concretise(self, "__index__")

    def __int__(self):
        return concretise(self, "__int__")

    def __float__(self):
        return float(concretise(self, "__float__"))

    def __round__(self, nd=None):
        return self

    def __trunc__(self):
        return self

    def __floor__(self):
        return self

    def __ceil__(self):
        return self

    def __format__(self, spec):
        return Placeholder(self, spec)

    def __str__(self):
        return Placeholder(self, "")

    def __repr__(self):
        return "SymInt(%s)" % self.t


def concretise(x, why=""):
    """fork on  x == model value  /  x != model value ; keeps every path real, loses exhaustiveness
    only if the 'other' side is not explored (it is: both sides are forked)."""
    e = E()
    t = x.t if isinstance(x, SymInt) else x
    t = S(t)
    if z3.is_int_value(t):
        return t.as_long()
    # split on the sign first: the values a model hands out tend to be 0, 1, 2, ...; behaviour that depends on a negative value
    # would otherwise be met late or never within a deadline
    e.branch(t < 0)
    while True:
        m = e.model()
        if m is None:
            raise Unsupported("concretise(%s): no model" % why)
        v = m.eval(t, model_completion=True).as_long()
        e.concretised += 1
        e.stats["concretisations"] += 1
        if e.branch(t == v):
            return v


# -------------------------------------------------------------------- SymRat
class SymRat:
    """a Python float idealised as the exact rational num/den, den a concrete positive int"""
    __slots__ = ("num", "den")

    def __init__(self, num, den=1):
        assert isinstance(den, int) and den > 0
        self.num = num if z3.is_expr(num) else z3.IntVal(num)
        self.den = den

    @staticmethod
    def of(x):
        if isinstance(x, SymRat):
            return x
        if isinstance(x, SymInt):
            return SymRat(x.t, 1)
        if isinstance(x, bool):
            return SymRat(z3.IntVal(int(x)), 1)
        if isinstance(x, int):
            return SymRat(z3.IntVal(x), 1)
        if isinstance(x, float):
            a, b = x.as_integer_ratio()
            return SymRat(z3.IntVal(a), b)
        raise TypeError("SymRat.of(%r)" % type(x))

    @staticmethod
    def ok(x):
        return isinstance(x, (int, float, SymInt, SymRat)) and not isinstance(x, SymBool)

    def __mul__(self, o):
        if isinstance(o, int) and not isinstance(o, bool):
            if o == 0:
                return SymRat(z3.IntVal(0), 1)
            g = math.gcd(abs(o), self.den)
            return SymRat(S(self.num * (o // g)), self.den // g)
        if not SymRat.ok(o):
            return NotImplemented
        o = SymRat.of(o)
        if not (z3.is_int_value(S(o.num)) or z3.is_int_value(S(self.num))):
            raise Unsupported("SymRat * SymRat with two symbolic numerators")
        return SymRat(S(self.num * o.num), self.den * o.den)
    __rmul__ = __mul__

    def __add__(self, o):
        if not SymRat.ok(o):
            return NotImplemented
        o = SymRat.of(o)
        l = self.den * o.den // math.gcd(self.den, o.den)
        return SymRat(S(self.num * (l // self.den) + o.num * (l // o.den)), l)
    __radd__ = __add__

    def __neg__(self):
        return SymRat(S(-self.num), self.den)

    def __sub__(self, o):
        if not SymRat.ok(o):
            return NotImplemented
        return self + (-SymRat.of(o))

    def __rsub__(self, o):
        if not SymRat.ok(o):
            return NotImplemented
        return SymRat.of(o) + (-self)

    def __truediv__(self, o):
        if isinstance(o, SymInt):
            o = concretise(o, "divisor")
        if isinstance(o, int) and not isinstance(o, bool):
            if o == 0:
                raise ZeroDivisionError("float division by zero")
            return SymRat(self.num, self.den * o) if o > 0 else SymRat(S(-self.num), self.den * -o)
        if isinstance(o, float):
            a, b = o.as_integer_ratio()
            return (self * b) / a
        if isinstance(o, SymRat):
            raise Unsupported("division by SymRat")
        return NotImplemented

    def _cmp(op):
        def f(self, o):
            if not SymRat.ok(o):
                return NotImplemented
            o = SymRat.of(o)
            a, b = self.num * o.den, o.num * self.den
            t = {"__lt__": a < b, "__le__": a <= b, "__gt__": a > b, "__ge__": a >= b}[op]
            return SymBool(t)
        return f
    __lt__ = _cmp("__lt__")
    __le__ = _cmp("__le__")
    __gt__ = _cmp("__gt__")
    __ge__ = _cmp("__ge__")
    del _cmp

    def eqz(self, o):
        o = SymRat.of(o)
        return self.num * o.den == o.num * self.den

    def __eq__(self, o):
        if not SymRat.ok(o):
            return False
        return SymBool(self.eqz(o))

    def __ne__(self, o):
        if not SymRat.ok(o):
            return True
        return SymBool(z3.Not(self.eqz(o)))
    __hash__ = None

    def __bool__(self):
        return E().branch(self.num != 0)

    # conversions (exact)
    def __floordiv__(self, o):
        """floor(self / o) for a positive int divisor (Python gives a float for float // int; the integral value is what matters)"""
        if isinstance(o, SymInt):
            o = concretise(o, "divisor")
        if isinstance(o, int) and not isinstance(o, bool) and o > 0:
            return (self / o).__floor__()
        raise Unsupported("SymRat // %r" % (o,))

    def _qr(self):
        if self.den == 1:
            return self.num, z3.IntVal(0)
        q, r = SymInt(self.num)._divmod(self.den)
        return q.t, r.t

    def __floor__(self):
        return SymInt(self._qr()[0])

    def __ceil__(self):
        q, r = self._qr()
        return SymInt(S(z3.If(r == 0, q, q + 1)))

    def __trunc__(self):
        q, r = self._qr()
        return SymInt(S(z3.If(z3.And(self.num < 0, r != 0), q + 1, q)))
    __int__ = None

    def __round__(self, nd=None):
        if nd is not None:
            if not isinstance(nd, int) or nd < 0 or nd > 9:
                raise Unsupported("round(x, %r)" % (nd,))
            scaled = (self * (10 ** nd)).__round__()
            return SymRat(toint(scaled), 10 ** nd)
        if self.den == 1:
            return SymInt(self.num)
        q, r = self._qr()
        d = self.den
        if d % 2:
            return SymInt(S(z3.If(2 * r < d, q, q + 1)))
        # tie: half to even -> need parity of q
        par = SymInt(q) % 2
        return SymInt(S(z3.If(2 * r < d, q, z3.If(2 * r > d, q + 1, z3.If(par.t == 0, q, q + 1)))))

    def __format__(self, spec):
        return Placeholder(self, spec)

    def __str__(self):
        return Placeholder(self, "")

    def __repr__(self):
        return "SymRat(%s/%d)" % (self.num, self.den)


# ------------------------------------------------------------------ SymBytes
class Base:
    """an uninterpreted byte sequence of symbolic length n (z3 Int term, bytes)"""

    def __init__(self, name, n):
        self.name = name
        self.seq = z3.Const(name, SEQ)
        self.n = n if z3.is_expr(n) else z3.IntVal(n)

    def axiom(self):
        return z3.Length(self.seq) == self.n


class SymBytes:
    """segments: ('b', base, lo, hi) non-empty slice of a base; ('c', bytes) literal; ('z', k) k>0 zero bytes"""
    __slots__ = ("segs",)

    def __init__(self, segs):
        out = []
        for g in segs:
            if out and g[0] == "b" and out[-1][0] == "b" and out[-1][1] is g[1]:
                d = S(out[-1][3] - g[2])
                if z3.is_int_value(d) and d.as_long() == 0:
                    out[-1] = ("b", g[1], out[-1][2], g[3])
                    continue
            if out and g[0] == "z" and out[-1][0] == "z":
                out[-1] = ("z", S(out[-1][1] + g[1]))
                continue
            if out and g[0] == "c" and out[-1][0] == "c":
                out[-1] = ("c", out[-1][1] + g[1])
                continue
            out.append(g)
        self.segs = out

    @staticmethod
    def whole(base):
        if E().branch(base.n > 0):
            return SymBytes([("b", base, z3.IntVal(0), base.n)])
        return SymBytes([])

    @staticmethod
    def zeros(k):
        k = toint(k)
        if E().branch(k > 0):
            return SymBytes([("z", S(k))])
        return SymBytes([])

    def seglen(self, s):
        if s[0] == "c":
            return z3.IntVal(len(s[1]))
        if s[0] == "z":
            return s[1]
        return s[3] - s[2]

    def length(self):
        t = z3.IntVal(0)
        for s in self.segs:
            t = t + self.seglen(s)
        return S(t)

    def __bool__(self):
        return len(self.segs) > 0

    def __bytes__(self):
        out = []
        for s in self.segs:
            if s[0] == "c":
                out.append(s[1])
            elif s[0] == "z" and z3.is_int_value(S(s[1])):
                out.append(b"\0" * S(s[1]).as_long())
            else:
                raise Unsupported("bytes() of symbolic content")
        return b"".join(out)

    def __getitem__(self, sl):
        if not isinstance(sl, slice):
            if isinstance(sl, int) and all(s[0] == "c" for s in self.segs):
                return bytes(self)[sl]
            raise Unsupported("SymBytes[int]")
        if sl.step is not None:
            raise Unsupported("SymBytes slice with step")
        br = E().branch
        n = self.length()

        def norm(x, default):
            if x is None:
                return default
            x = S(toint(x))
            if br(x < 0):
                return z3.IntVal(0) if br(x + n < 0) else S(x + n)
            return n if br(x > n) else x
        lo = norm(sl.start, z3.IntVal(0))
        hi = norm(sl.stop, n)
        if not br(hi > lo):
            return SymBytes([])
        out = []
        off = z3.IntVal(0)
        for s in self.segs:
            ln = S(self.seglen(s))
            a, b = off, S(off + ln)
            off = b
            if br(hi <= a):
                break
            if br(lo >= b):
                continue
            l2 = lo if br(lo > a) else a
            h2 = hi if br(hi < b) else b
            if s[0] == "c":
                l2c, h2c = concretise(S(l2 - a), "literal slice"), concretise(S(h2 - a), "literal slice")
                out.append(("c", s[1][l2c:h2c]))
            elif s[0] == "z":
                out.append(("z", S(h2 - l2)))
            else:
                out.append(("b", s[1], S(s[2] + (l2 - a)), S(s[2] + (h2 - a))))
        return SymBytes(out)

    def __add__(self, o):
        if not isinstance(o, (bytes, bytearray, SymBytes)):
            return NotImplemented
        return SymBytes(self.segs + lift(o).segs)

    def __radd__(self, o):
        if not isinstance(o, (bytes, bytearray, SymBytes)):
            return NotImplemented
        return SymBytes(lift(o).segs + self.segs)

    def __mul__(self, n):
        return bytes_repeat(self, n)
    __rmul__ = __mul__

    def join(self, it):
        out = []
        for i, p in enumerate(it):
            if i:
                out += self.segs
            out += lift(p).segs
        return SymBytes(out)

    def term(self):
        ts = []
        for s in self.segs:
            if s[0] == "c":
                ts.append(lit_term(s[1]))
            elif s[0] == "z":
                raise Unsupported("seq term of symbolic-length zeros")
            else:
                ts.append(z3.Extract(s[1].seq, s[2], S(s[3] - s[2])))
        if not ts:
            return z3.Empty(SEQ)
        return z3.Concat(*ts) if len(ts) > 1 else ts[0]

    def __eq__(self, o):
        if isinstance(o, (bytes, bytearray, SymBytes)):
            return SymBool(bytes_eq_formula(self, lift(o)))
        return False

    def __ne__(self, o):
        if isinstance(o, (bytes, bytearray, SymBytes)):
            return SymBool(z3.Not(bytes_eq_formula(self, lift(o))))
        return True
    __hash__ = None

    def __repr__(self):
        return "SymBytes(%s)" % (self.segs,)


def lit_term(x):
    us = [z3.Unit(z3.BitVecVal(b, 8)) for b in x]
    if not us:
        return z3.Empty(SEQ)
    return z3.Concat(*us) if len(us) > 1 else us[0]


def lift(x):
    if isinstance(x, SymBytes):
        return x
    if isinstance(x, (bytes, bytearray)):
        return SymBytes([("c", bytes(x))] if len(x) else [])
    raise TypeError("a bytes-like object is required, not %r" % type(x).__name__)


def bytes_repeat(b, n):
    """b * n  for n int or SymInt"""
    b = lift(b)
    if isinstance(n, SymInt):
        if not b.segs:
            return SymBytes([])
        if all(s[0] == "z" for s in b.segs) or all(s[0] == "c" and set(s[1]) == {0} for s in b.segs):
            unit = b.length()
            if E().branch(n.t > 0):
                return SymBytes([("z", S(unit * n.t))])
            return SymBytes([])
        n = concretise(n, "bytes repeat count")
    if not isinstance(n, int):
        raise TypeError("can't multiply sequence by non-int of type %r" % type(n).__name__)
    out = []
    for _ in range(max(n, 0)):
        out += b.segs
    return SymBytes(out)


def normalise(sb, e=None):
    """merge neighbouring segments of one base when the path condition entails hi_i == lo_{i+1}"""
    e = e or E()
    out = []
    for g in sb.segs:
        if out and g[0] == "b" and out[-1][0] == "b" and out[-1][1] is g[1] and e.entails(out[-1][3] == g[2]):
            out[-1] = ("b", g[1], out[-1][2], g[3])
        else:
            out.append(g)
    return out


def bytes_eq_formula(a, b):
    """a z3 Bool equivalent to a == b.  LIA when the normal forms line up, sequence theory otherwise."""
    sa, sb_ = normalise(a), normalise(b)
    if not sa or not sb_:
        return z3.BoolVal(not sa and not sb_)   # segments are non-empty by construction
    if len(sa) == len(sb_) and all(x[0] == y[0] and (x[0] != "b" or x[1] is y[1]) for x, y in zip(sa, sb_)):
        cs = []
        for x, y in zip(sa, sb_):
            if x[0] == "b":
                cs.append(z3.And(x[2] == y[2], x[3] == y[3]))
            elif x[0] == "z":
                cs.append(x[1] == y[1])
            else:
                cs.append(z3.BoolVal(x[1] == y[1]))
        lia = z3.And(*cs)
        if E().entails(lia):
            return z3.BoolVal(True)
        # different offsets of the same base may still hold equal bytes: not decidable in LIA
    if any(s[0] == "z" for s in sa + sb_):
        raise Unsupported("byte equality involving symbolic-length zeros with different structure")
    return SymBytes(sa).term() == SymBytes(sb_).term()


def slice_goal(val, base, lo, hi):
    """formula: val == base[lo:hi]  (python semantics for already clamped 0<=lo, hi<=n; empty if hi<=lo)"""
    lo, hi = toint(lo), toint(hi)
    if val is None:
        return z3.BoolVal(False)
    val = lift(val)
    segs = normalise(val)
    if not segs:
        return hi <= lo
    if len(segs) == 1 and segs[0][0] == "b" and segs[0][1] is base:
        return z3.And(segs[0][2] == lo, segs[0][3] == hi)
    if any(s[0] == "z" for s in segs):
        return z3.BoolVal(False)
    return z3.And(hi > lo, SymBytes(segs).term() == z3.Extract(base.seq, lo, hi - lo))


def concat_goal(val, parts):
    """formula: val == concatenation of parts (each a SymBytes / bytes)"""
    exp = SymBytes([])
    for p in parts:
        exp = exp + lift(p)
    return bytes_eq_formula(lift(val), exp)


# --------------------------------------------------------------------- GList
class GList:
    """symbolic-length list of frames: arrays P (stream position), V (validity), R (ghost: length of the
    invalid run ending at i, continued from `carry` at index 0)"""

    def __init__(self, n, P, V, R, carry):
        self.n, self.P, self.V, self.R, self.carry = n, P, V, R, carry

    def append(self, fr):
        prev = z3.If(self.n == 0, self.carry, self.R[self.n - 1])
        v = tobool(fr.valid)
        self.P = z3.Store(self.P, self.n, toint(fr.pos))
        self.V = z3.Store(self.V, self.n, v)
        self.R = z3.Store(self.R, self.n, z3.If(v, 0, prev + 1))
        self.n = S(self.n + 1)

    def __getitem__(self, sl):
        if not isinstance(sl, slice) or sl.step is not None:
            raise Unsupported("GList index")
        if sl.start not in (None, 0):
            raise Unsupported("GList slice with start")
        n = self.n
        if sl.stop is None:
            n2 = n
        else:
            hi = toint(sl.stop)
            n2 = z3.If(hi < 0, z3.If(n + hi < 0, 0, n + hi), z3.If(hi < n, hi, n))
        return GList(S(n2), self.P, self.V, self.R, self.carry)

    def __bool__(self):
        return E().branch(self.n > 0)

    def __sx_len__(self):
        return SymInt(self.n)
    __hash__ = None
