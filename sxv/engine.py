"""sxv engine: symbolic execution of real Python by proxy values and depth-first
path re-execution, z3 as the deciding back end.

A *harness* is a function ``fn(engine) -> dict`` that builds symbolic inputs,
calls auditok's own code (loaded through sxv.loader) and finally asks the engine
to discharge obligations.  The function is re-run once per path; every
``SymBool.__bool__`` is a decision point.  The result dict must be JSON-able.
"""
import os
import sys
import time
import traceback
import multiprocessing as mp
from collections import Counter, deque

import z3


class SxControl(BaseException):
    """engine control flow; BaseException so that auditok's `except Exception` cannot swallow it"""


class Infeasible(SxControl):
    pass


class Unsupported(SxControl):
    pass


class PathBudget(SxControl):
    pass


def S(t):
    return z3.simplify(t)


class Engine:
    cur = None

    def __init__(self, timeout_ms=20000, max_decisions=600, path_wall_s=120):
        self.timeout_ms = timeout_ms
        self.max_decisions = max_decisions
        self.path_wall_s = path_wall_s
        self.stats = Counter()
        self.solver_s = 0.0
        self.entered = set()

    # ------------------------------------------------------------------ path
    def start_path(self, prefix):
        Engine.cur = self
        self.prefix = list(prefix)
        self.pos = 0
        self.trace = []
        self.pending = []
        self.solver = z3.Solver()
        self.solver.set("timeout", self.timeout_ms)
        self.fresh_n = 0
        self.notes = []
        self.unknown_branch = False
        self.concretised = 0
        self.decided = {}
        self._keep = []
        self._divcache = {}
        self.on_budget = None
        self.fresh_logic = None
        self._fresh_model = None
        self.path_t0 = time.process_time()

    def fresh(self, name, sort="int"):
        self.fresh_n += 1
        nm = "%s!%d" % (name, self.fresh_n)
        if sort == "int":
            return z3.Int(nm)
        if sort == "bool":
            return z3.Bool(nm)
        return z3.Const(nm, sort)

    def check(self, *extra, count=True):
        t = time.time()
        if self.fresh_logic:
            # non-incremental mode (FP harnesses): every query on a fresh solver for the given logic
            s = z3.SolverFor(self.fresh_logic)
            s.set("timeout", self.timeout_ms)
            for a in self.solver.assertions():
                s.add(a)
            for x in extra:
                s.add(x)
            r = s.check()
            self._fresh_model = s.model() if r == z3.sat else None
        else:
            r = self.solver.check(*extra)
        dt = time.time() - t
        self.solver_s += dt
        if count:
            self.stats["queries"] += 1
            self.stats["q_" + str(r)] += 1
        return r

    def assume(self, c):
        from .values import tobool
        c = S(tobool(c))
        if z3.is_false(c):
            raise Infeasible()
        self.solver.add(c)

    def add(self, c):
        self.solver.add(c)

    def feasible(self):
        return self.check() != z3.unsat

    def branch(self, c):
        """decide a boolean z3 term; forks when both outcomes are satisfiable"""
        c = S(c)
        if z3.is_true(c):
            return True
        if z3.is_false(c):
            return False
        base, pol = (c.arg(0), False) if z3.is_not(c) else (c, True)
        k = base.get_id()
        if k in self.decided:
            self.stats["branch_cache_hits"] += 1
            return self.decided[k] == pol
        self._keep.append(base)
        d = self._branch(c)
        self.decided[k] = (d == pol)
        return d

    def _branch(self, c):
        if self.pos < len(self.prefix):
            d = self.prefix[self.pos]
        else:
            if len(self.trace) >= self.max_decisions:
                raise PathBudget("more than %d decisions on one path" % self.max_decisions)
            if time.process_time() - self.path_t0 > self.path_wall_s:
                raise PathBudget("path used more than %d s of CPU" % self.path_wall_s)
            rt = self.check(c)
            rf = self.check(z3.Not(c))
            if rt == z3.unknown or rf == z3.unknown:
                self.unknown_branch = True
                self.stats["unknown_branch"] += 1
            ct = rt != z3.unsat
            cf = rf != z3.unsat
            if ct and cf:
                d = 1
                self.pending.append(self.trace + [0])
            elif ct:
                d = 1
            elif cf:
                d = 0
            else:
                raise Infeasible()
        self.pos += 1
        self.trace.append(d)
        self.solver.add(c if d else z3.Not(c))
        return bool(d)

    def choose(self, n, label=None):
        """nondeterministic concrete choice in range(n): every alternative is explored"""
        if n <= 1:
            return 0
        if self.pos < len(self.prefix):
            d = self.prefix[self.pos]
        else:
            d = 0
            for k in range(n - 1, 0, -1):
                self.pending.append(self.trace + [k])
        self.pos += 1
        self.trace.append(d)
        return d

    def entails(self, c):
        """does the path condition entail c ?  (unknown -> False)"""
        c = S(c)
        if z3.is_true(c):
            return True
        if z3.is_false(c):
            return False
        return self.check(z3.Not(c)) == z3.unsat

    def refute(self, goal):
        """ask for PC and not goal.  returns ('unsat',None) | ('sat',model) | ('unknown',None)"""
        goal = S(goal)
        if z3.is_true(goal):
            self.stats["trivial_goals"] += 1
            return "unsat", None
        r = self.check(z3.Not(goal))
        if r == z3.sat:
            return "sat", (self._fresh_model if self.fresh_logic else self.solver.model())
        return str(r), None

    def refute_fresh(self, goal, logic=None, timeout_ms=None):
        """like refute, but on a fresh non-incremental solver (z3 then uses its dedicated tactic for the logic,
        e.g. bit-blasting for QF_FP, instead of the incremental core)"""
        s = z3.SolverFor(logic) if logic else z3.Solver()
        s.set("timeout", timeout_ms or self.timeout_ms)
        for a in self.solver.assertions():
            s.add(a)
        s.add(z3.Not(goal))
        t = time.time()
        r = s.check()
        self.solver_s += time.time() - t
        self.stats["queries"] += 1
        self.stats["q_" + str(r)] += 1
        if r == z3.sat:
            return "sat", s.model()
        return str(r), None

    def second_opinion(self, goal, logic="QF_FP", tlimit_ms=600000, get_values=()):
        """re-decide PC and not goal with cvc5 (python wheel) on the SMT-LIB text z3 prints; returns 'unsat' | 'sat' | 'unknown' |
        'error: ...'.  Used as a cross-check only (thorough tier); a disagreement makes the query inconclusive."""
        try:
            import cvc5
        except ImportError:
            return "error: cvc5 not installed"
        s = z3.Solver()
        for a in self.solver.assertions():
            s.add(a)
        s.add(z3.Not(goal))
        text = "\n".join(l for l in s.to_smt2().split("\n") if not l.startswith("(set-info"))
        if get_values:
            text += "\n(get-value (%s))\n" % " ".join(get_values)
        t = time.time()
        self.cvc5_values = None
        try:
            tm = cvc5.TermManager()
            slv = cvc5.Solver(tm)
            slv.setOption("tlimit", str(tlimit_ms))
            if get_values:
                slv.setOption("produce-models", "true")
            slv.setLogic(logic)
            parser = cvc5.InputParser(slv)
            parser.setStringInput(cvc5.InputLanguage.SMT_LIB_2_6, text, "query")
            sm = parser.getSymbolManager()
            out = []
            while True:
                cmd = parser.nextCommand()
                if cmd.isNull():
                    break
                r = str(cmd.invoke(slv, sm)).strip()
                if r:
                    out.append(r)
            res = out[-1] if out else "unknown"
            if get_values and len(out) >= 2 and out[0] in ("sat", "unsat", "unknown"):
                res = out[0]
                self.cvc5_values = out[1] if res == "sat" else None
            elif get_values and out:
                res = out[0]
            if "(error" in " ".join(out) and res != "unsat":
                res = "error: " + " ".join(out)[:200]
        except Exception as ex:
            res = "error: %s" % str(ex)[:200]
        self.stats["cvc5_queries"] += 1
        self.stats["cvc5_s"] += int(time.time() - t)
        return res

    def model(self):
        r = self.check(count=False)
        if r == z3.sat:
            return self._fresh_model if self.fresh_logic else self.solver.model()
        return None


# ---------------------------------------------------------------- exploration
_FN = None
_ENGINE_KW = {}
TIME_SLICE = 0.4
TRACE_ROOT = os.path.join(os.environ.get("SXV_REPO", "/repo"), "auditok") + os.sep


class _Tracer:
    """records which functions of the loaded auditok source were entered (first path of every chunk)"""

    def __init__(self, prefix, sink):
        self.prefix, self.sink = prefix, sink

    def __call__(self, frame, event, arg):
        if event == "call":
            co = frame.f_code
            if co.co_filename.startswith(self.prefix):
                self.sink.add("%s:%s" % (os.path.basename(co.co_filename), co.co_qualname))


def _plain(x, depth=0):
    """results cross a process boundary: keep only plain JSON-like data (proxy values and placeholder strings are rendered)"""
    if isinstance(x, bool) or x is None or type(x) in (int, float, str):
        return x
    if isinstance(x, str):
        return str.__str__(x) + ""
    if isinstance(x, dict):
        return {(_plain(k, depth + 1) if not isinstance(k, (int, str)) or type(k) not in (int, str) else k): _plain(v, depth + 1) for k, v in x.items()} if depth < 8 else "..."
    if isinstance(x, (list, tuple, set)):
        return [_plain(v, depth + 1) for v in x] if depth < 8 else "..."
    if isinstance(x, (int, float)):
        return x
    return repr(x)[:200]


def _on_alarm(signum, frame):
    raise PathBudget("path ran for more than its wall-clock budget (watchdog)")


def _arm(seconds):
    import signal
    import threading
    if threading.current_thread() is not threading.main_thread():
        return
    if seconds:
        signal.signal(signal.SIGALRM, _on_alarm)
    signal.setitimer(signal.ITIMER_REAL, seconds)


def _run_subtree(args):
    prefix, chunk = args
    t_start = time.time()
    fn = _FN
    e = Engine(**_ENGINE_KW)
    stack = [prefix]
    results = []
    npaths = 0
    while stack and npaths < chunk and (npaths == 0 or time.time() - t_start < TIME_SLICE):
        p = stack.pop()
        e.start_path(p)
        tracer = None
        if npaths == 0 and TRACE_ROOT:
            tracer = _Tracer(TRACE_ROOT, e.entered)
            sys.setprofile(tracer)
        try:
            try:
                _arm(4 * e.path_wall_s)      # wall-clock backstop for paths that block; the budget proper is CPU time (load-independent)
                r = fn(e)
            finally:
                _arm(0)
                if tracer is not None:
                    sys.setprofile(None)
            if r is None:
                r = {"status": "ok"}
        except Infeasible:
            r = None
        except PathBudget as ex:
            # a path that does not end within the budget: possible non-termination of the code under test.
            # If the harness registered a counterexample builder the model is handed to the replay.
            r = {"status": "budget", "why": "path budget: %s" % ex}
            if e.on_budget is not None:
                try:
                    m = e.model()
                    if m is not None:
                        r = {"status": "cex", "failing": ["path budget exceeded (possible non-termination): %s" % ex],
                             "cex": e.on_budget(m)}
                except Exception:
                    pass
        except Unsupported as ex:
            r = {"status": "unsupported", "why": str(ex)[:300]}
        except SxControl as ex:
            r = {"status": "harness_error", "why": "%s: %s" % (type(ex).__name__, ex)}
        except Exception as ex:  # harness bug (auditok exceptions must be handled inside fn)
            r = {"status": "harness_error", "why": "%s: %s" % (type(ex).__name__, ex),
                 "tb": traceback.format_exc()[-1500:]}
        npaths += 1
        if r is not None:
            r = _plain(r)
            r.setdefault("status", "ok")
            r["decisions"] = "".join(str(d) if d < 10 else "(%d)" % d for d in e.trace)
            if e.unknown_branch:
                r["unknown_branch"] = True
            if e.concretised:
                r["concretised"] = e.concretised
            results.append(r)
        else:
            e.stats["infeasible_paths"] += 1
        stack.extend(e.pending)
    return results, stack, dict(e.stats), e.solver_s, npaths, sorted(e.entered)


class Exploration:
    def __init__(self):
        self.results = []
        self.stats = Counter()
        self.solver_s = 0.0
        self.paths = 0
        self.exhausted = True
        self.stopped_on_cex = False
        self.wall_s = 0.0
        self.entered = set()

    def by_status(self):
        return Counter(r["status"] for r in self.results)


def explore(fn, workers=None, timeout_ms=20000, chunk=40, max_paths=None, deadline_s=None, keep=None, max_decisions=600, path_wall_s=60, stop_after_cex=30):
    """explore all paths of fn.  keep(result)->bool selects which result dicts are retained in full
    (default all)."""
    global _FN, _ENGINE_KW
    _FN = fn
    _ENGINE_KW = dict(timeout_ms=timeout_ms, max_decisions=max_decisions, path_wall_s=path_wall_s)
    if workers is None:
        workers = int(os.environ.get("SXV_WORKERS", "0")) or min(16, os.cpu_count() or 1)
    ex = Exploration()
    t0 = time.time()
    queue = deque([[]])
    if deadline_s is None:
        deadline_s = float(os.environ.get("SXV_DEADLINE", "0")) or (150 if os.environ.get("SXV_TIER", "quick") == "quick" else 2400)
    ncex = [0]

    def absorb(out):
        results, left, stats, ss, np_, entered = out
        for r in results:
            if r["status"] == "cex":
                ncex[0] += 1
            if keep is None or keep(r):
                ex.results.append(r)
            else:
                ex.results.append({k: r[k] for k in ("status", "validated_against_impl") if k in r})
        ex.stats.update(stats)
        ex.solver_s += ss
        ex.paths += np_
        ex.entered.update(entered)
        if not ex.stopped_on_cex:
            queue.extend(left)

    if workers <= 1:
        while queue:
            if ncex[0] >= stop_after_cex:
                ex.stopped_on_cex = True
                break
            if (max_paths and ex.paths >= max_paths) or (deadline_s and time.time() - t0 > deadline_s):
                ex.exhausted = False
                break
            absorb(_run_subtree((queue.pop(), chunk)))
    else:
        ctx = mp.get_context("fork")
        # warm-up in the parent so that the first split yields enough prefixes
        absorb(_run_subtree((queue.pop(), 4)))
        if queue:
            with ctx.Pool(workers) as pool:
                inflight = []
                while queue or inflight:
                    over = (max_paths and ex.paths >= max_paths) or (deadline_s and time.time() - t0 > deadline_s)
                    if ncex[0] >= stop_after_cex and queue:
                        ex.stopped_on_cex = True
                        queue.clear()
                    elif over and (queue or inflight):
                        ex.exhausted = False
                        queue.clear()
                        break
                    while queue and len(inflight) < workers * 2:
                        inflight.append(pool.apply_async(_run_subtree, ((queue.pop(), chunk),)))
                    if not inflight:
                        break
                    done = [a for a in inflight if a.ready()]
                    if not done:
                        inflight[0].wait(0.02)
                        continue
                    for a in done:
                        inflight.remove(a)
                        absorb(a.get())
                pool.terminate()
    ex.wall_s = time.time() - t0
    return ex
