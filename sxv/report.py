"""Report: collects per-harness exploration results, replayed violations, evidence."""
import hashlib
import json
import os
import time
from collections import Counter

VERIF = os.path.dirname(os.path.dirname(os.path.abspath(__file__)))


class EnoughViolations(BaseException):
    pass


class Report:
    def __init__(self, prop, tier, seed):
        self.prop, self.tier, self.seed = prop, tier, seed
        self._check_t0 = time.time()
        self.t0 = time.time()
        self.harnesses = []
        self.violations = []      # replayed and confirmed on the real code
        self.known = []           # subset matching known_findings
        self.artefacts = []       # sat models that did not reproduce under a stated idealisation
        self.harness_errors = []
        self.inconclusive = []
        self.unreproduced = []
        self.nontrivial = 0
        self.notes = []
        self.assumptions = []
        self.outside = []
        self.bounds = {}
        self.functions = set()
        self.hashes = {}
        self.samples = []
        self.witnesses = {}
        self.level = "model_checking"
        self.explanation = ""
        self.replays_validated = 0
        self.inductive = None

    # ------------------------------------------------------------------
    def _enough(self):
        """a tree on which violations have been replayed is broken: once there are six different ones, twenty replays, or ten
        minutes (thorough: thirty) have gone by since the first, the remaining harnesses add nothing to the verdict (exit 1)
        and can take very long on such a tree"""
        import time as _t
        if getattr(self, "_stopped", False):
            return
        # the whole check has a time budget as well: on a tree where every harness runs into its deadline (path explosion after
        # some change) the check must still come to an end; what was not run is reported as not covered
        started = getattr(self, "_check_t0", None)
        if started is None:
            started = self._check_t0 = _t.time()
        budget = float(os.environ.get("SXV_CHECK_BUDGET", "0")) or (1500 if self.tier == "quick" else 4 * 3600)
        if _t.time() - started > budget:
            self._stopped = True
            self.inconclusive.append("check time budget of %d s used up; the remaining harnesses were not run: not covered by the claim" % budget)
            raise EnoughViolations()
        if not self.violations:
            return
        t0 = getattr(self, "_first_violation_t", None)
        if t0 is None:
            t0 = self._first_violation_t = _t.time()
        limit = 600 if self.tier == "quick" else 1800
        if len(self.violations) >= 6 or sum(v["count"] for v in self.violations) >= 20 or _t.time() - t0 > limit:
            self._stopped = True
            self.notes.append("stopped after %d distinct replayed violations (%d replays); the remaining harnesses were not run" % (
                len(self.violations), sum(v["count"] for v in self.violations)))
            raise EnoughViolations()

    def add_exploration(self, name, ex, bounds=None, extra=None):
        self._enough()
        st = ex.by_status()
        h = {"harness": name, "paths": ex.paths, "feasible_paths": len(ex.results),
             "queries": ex.stats.get("queries", 0), "unsat": ex.stats.get("q_unsat", 0),
             "sat": ex.stats.get("q_sat", 0), "unknown": ex.stats.get("q_unknown", 0),
             "trivial_goals": ex.stats.get("trivial_goals", 0),
             "concretisations": ex.stats.get("concretisations", 0),
             "unknown_branches": ex.stats.get("unknown_branch", 0),
             "solver_s": round(ex.solver_s, 2), "wall_s": round(ex.wall_s, 2),
             "exhausted": ex.exhausted, "outcomes": dict(st)}
        if bounds:
            h["bounds"] = bounds
        if extra:
            h.update(extra)
        self.harnesses.append(h)
        if os.environ.get("SXV_VERBOSE"):
            import sys
            print("[%6.1fs] %s paths=%d wall=%.1fs %s" % (time.time() - self.t0, name, ex.paths, ex.wall_s, dict(st)), file=sys.stderr, flush=True)
        self.functions.update(ex.entered)
        if ex.stopped_on_cex:
            h["stopped_after_counterexamples"] = True
        if not ex.exhausted:
            self.inconclusive.append("%s: path tree not exhausted within the time budget (%d paths explored)" % (name, ex.paths))
        nv = sum(1 for r in ex.results if r.get("validated_against_impl") is True)
        nbad = sum(1 for r in ex.results if r.get("validated_against_impl") is False)
        self.replays_validated += nv
        if nbad:
            self.inconclusive.append("%s: %d sampled path(s) whose concrete instance behaves differently on the real code (engine/shim mismatch)" % (name, nbad))
        nun = sum(1 for r in ex.results if r["status"] == "unsupported")
        if nun:
            why = next(r.get("why") for r in ex.results if r["status"] == "unsupported")
            self.inconclusive.append("%s: %d path(s) left the modelled fragment (%s): not covered by the claim" % (name, nun, why))
        nk = sum(1 for r in ex.results if r["status"] == "unknown")
        if nk:
            self.inconclusive.append("%s: the solver gave no verdict on %d path(s) within the time-out: not covered by the claim" % (name, nk))
        nb = sum(1 for r in ex.results if r["status"] == "budget")
        if nb:
            self.inconclusive.append("%s: %d path(s) exceeded the per-path budget (%s)" % (name, nb, next(r.get("why") for r in ex.results if r["status"] == "budget")))
        for r in ex.results:
            if r["status"] == "harness_error":
                self.harness_errors.append("%s: %s %s" % (name, r.get("why"), r.get("tb", "")))
                break
        withinst = [r for r in ex.results if "instance" in r][:2]
        for r in withinst + ex.results[:2]:
            if len(self.samples) < 40 and r["status"] not in ("harness_error",):
                s = {k: v for k, v in r.items() if k not in ("tb", "cex")}
                s["harness"] = name
                self.samples.append(s)
        self.nontrivial += sum(1 for r in ex.results if r["status"] != "ok" or any(r.get(k) for k in (
            "obligations", "tokens", "regions", "detections", "outcome", "lines", "windows", "blocks_read_before_stop")))
        return h

    def witness(self, name, found):
        self.witnesses[name] = bool(found) or self.witnesses.get(name, False)

    def add_violation(self, key, what, replay):
        """replay: self-contained dict that `--replay` can re-run"""
        for v in self.violations:
            if v["key"] == key:
                v["count"] += 1
                return v
        blob = json.dumps(replay, sort_keys=True, default=str)
        h = hashlib.sha1((self.prop + key + blob).encode()).hexdigest()[:10]
        rdir = os.environ.get("SXV_REPLAY_DIR") or os.path.join(VERIF, "replays")
        os.makedirs(rdir, exist_ok=True)
        path = os.path.join(rdir, "%s-%s.json" % (self.prop, h))
        with open(path, "w") as f:
            json.dump({"property": self.prop, "key": key, "what": what, "replay": replay}, f, indent=1, default=str)
        v = {"key": key, "what": what, "replay_file": path, "count": 1}
        self.violations.append(v)
        return v

    # ------------------------------------------------------------------
    def finish(self, known_findings):
        """prints VIOLATION / KNOWN-FINDING lines, writes the evidence file, returns the exit code"""
        if self.unreproduced:
            self.inconclusive.append("%d solver model(s) did not reproduce on the real code (encoding or stub mismatch; see evidence.unreproduced_models), first: %s" % (
                len(self.unreproduced), json.dumps(self.unreproduced[0], default=str)[:400]))
        unknown_viol = []
        for v in self.violations:
            kf = next((k for k in known_findings if k.get("property") == self.prop and k.get("status") == "known"
                       and k.get("key") == v["key"]), None)
            if kf:
                print("KNOWN-FINDING: property=%s %s" % (self.prop, kf.get("what", v["what"])))
                self.known.append(v)
            else:
                unknown_viol.append(v)
        for v in unknown_viol:
            print("VIOLATION property=%s replay=%s" % (self.prop, v["replay_file"]))
            print("  what: %s" % v["what"])
        tot = Counter()
        for h in self.harnesses:
            for k in ("paths", "feasible_paths", "queries", "unsat", "sat", "unknown", "concretisations", "unknown_branches"):
                tot[k] += h.get(k, 0)
        outcomes = Counter()
        for h in self.harnesses:
            for k, n in h["outcomes"].items():
                outcomes[h["harness"].split("[")[0] + ":" + k] += n
        distinct = max(self.nontrivial, len(outcomes) + sum(1 for w in self.witnesses.values() if w))
        cov = {
            "evaluations": max(tot["feasible_paths"], 0),
            "distinct_nontrivial": distinct,
            "rule": "every feasible path of the real code within the bounds is one evaluation (paths are pairwise distinct input/"
                    "schedule classes: they differ in at least one decision); each ends in solver queries PC ∧ ¬obligation. "
                    "distinct_nontrivial counts the paths that produced at least one token / region / detection / printed line, or "
                    "carried at least one non-trivial obligation, or ended in an exception outcome. Samples with an `instance` "
                    "show a concrete model of the path condition that was also run on the unmodified package.",
            "states": max(tot["feasible_paths"], 0),
            "transitions": max(tot["queries"], 0),
            "traces_validated_against_impl": self.replays_validated,
            "obligations": tot["queries"],
            "discharged": tot["unsat"],
            "samples": (sorted(self.samples, key=lambda x: "instance" not in x)[:16]) or [{"note": "no path completed"}],
            "exhaustive": all(h["exhausted"] for h in self.harnesses) and not self.harness_errors,
            "explanation": self.explanation,
            "solver": "z3 %s (python API)" % _z3v(),
            "solver_queries": {"total": tot["queries"], "unsat": tot["unsat"], "sat": tot["sat"], "unknown": tot["unknown"]},
            "solver_seconds": round(sum(h["solver_s"] for h in self.harnesses), 2),
            "bounds": self.bounds,
            "harnesses": self.harnesses,
            "functions_entered": sorted(self.functions),
            "source_sha256": self.hashes,
            "vacuity_witnesses": self.witnesses,
            "outcome_classes": dict(outcomes),
            "outside_claim": self.outside,
            "notes": self.notes,
            "inductive": self.inductive,
            "idealisation_artefacts": self.artefacts[:5],
            "unreproduced_models": self.unreproduced[:5],
            "harness_errors": self.harness_errors[:5],
            "inconclusive": self.inconclusive[:10],
            "known_findings_matched": [v["key"] for v in self.known],
            "violation_keys": [v["key"] for v in unknown_viol],
        }
        ev = {"property_id": self.prop, "tier": self.tier, "seed": self.seed, "level": self.level,
              "coverage": cov, "assumptions": self.assumptions, "wall_s": round(time.time() - self.t0, 2),
              "violations": len(unknown_viol)}
        edir = os.environ.get("SXV_EVIDENCE_DIR") or os.path.join(VERIF, "evidence")
        os.makedirs(edir, exist_ok=True)
        with open(os.path.join(edir, self.prop + ".json"), "w") as f:
            json.dump(ev, f, indent=1, default=str)
        print("%s tier=%s paths=%d queries=%d unsat=%d sat=%d unknown=%d wall=%.1fs violations=%d known=%d%s" % (
            self.prop, self.tier, tot["feasible_paths"], tot["queries"], tot["unsat"], tot["sat"], tot["unknown"],
            time.time() - self.t0, len(unknown_viol), len(self.known),
            " HARNESS-ERRORS=%d" % len(self.harness_errors) if self.harness_errors else ""))
        for x in self.inconclusive[:5]:
            print("INCONCLUSIVE: %s" % x)
        if unknown_viol:
            return 1
        if self.harness_errors:
            for h in self.harness_errors[:5]:
                print("HARNESS-ERROR: %s" % h)
            return 3
        return 0


def _z3v():
    import z3
    return z3.get_version_string()
