"""Concrete oracles written from the property statements.  Used only to judge *replays* of solver
models on the unmodified auditok; never part of the symbolic verdict."""


class CFrame:
    """a concrete frame with identity"""
    __slots__ = ("pos", "valid")

    def __init__(self, pos, valid):
        self.pos, self.valid = pos, valid

    def __repr__(self):
        return ("A" if self.valid else "a") + str(self.pos)


class CFalsyFrame(CFrame):
    __slots__ = ()

    def __bool__(self):
        return False

    def __len__(self):
        return 0


class CSource:
    def __init__(self, frames):
        self.frames = frames
        self.i = 0
        self.reads = 0
        self.nones = 0

    def read(self):
        self.reads += 1
        if self.i >= len(self.frames):
            self.nones += 1
            return None
        self.i += 1
        return self.frames[self.i - 1]


def c01_failures(tokens, frames):
    out = []
    prev_e = -1
    for k, (data, s, e) in enumerate(tokens):
        if not (0 <= s <= e < len(frames)):
            out.append("token %d bounds (%s,%s) outside stream of %d" % (k, s, e, len(frames)))
            continue
        if e - s + 1 != len(data):
            out.append("token %d: end-start+1=%d but %d frames" % (k, e - s + 1, len(data)))
        if list(data) != frames[s:e + 1] or any(a is not b for a, b in zip(data, frames[s:e + 1])):
            out.append("token %d frames are not stream[%d..%d]" % (k, s, e))
        if s <= prev_e:
            out.append("token %d starts at %d <= previous end %d" % (k, s, prev_e))
        prev_e = e
    return out


def c02_failures(tokens, mn, mx, strict):
    out = []
    prev = None
    for k, (data, s, e) in enumerate(tokens):
        L = len(data)
        if L > mx:
            out.append("token %d has %d frames > max_length %d" % (k, L, mx))
        if L < mn:
            if strict:
                out.append("token %d has %d frames < min_length %d in strict mode" % (k, L, mn))
            elif prev is None or len(prev[0]) != mx or prev[2] + 1 != s:
                out.append("token %d has %d frames < min_length %d and does not start right after a cut token" % (k, L, mn))
        prev = (data, s, e)
    return out


def c03_failures(tokens, mx, mcs, init_min, ims, drop):
    out = []
    mcs = max(mcs, 0)
    bound = max(mcs, ims) if init_min > 1 else mcs
    prev = None
    for k, (data, s, e) in enumerate(tokens):
        cont = prev is not None and len(prev[0]) == mx and prev[2] + 1 == s
        run = 0
        if cont:
            for f in prev[0]:
                run = 0 if f.valid else run + 1
        worst = 0
        for f in data:
            run = 0 if f.valid else run + 1
            worst = max(worst, run)
        if worst > bound:
            out.append("token %d contains a run of %d invalid frames > %d" % (k, worst, bound))
        if not any(f.valid for f in data):
            out.append("token %d has no valid frame" % k)
        if not data[0].valid and not cont:
            out.append("token %d starts with an invalid frame and is no continuation" % k)
        if drop and len(data) != mx and not data[-1].valid:
            out.append("token %d ends with an invalid frame although trailing silence is dropped" % k)
        prev = (data, s, e)
    return out


def greedy_reference(v, mn, mx, mcs, drop, strict):
    """declarative greedy segmentation of C04 (init_min <= 1); v: list of bool"""
    n = len(v)
    toks = []
    i = 0
    while i < n:
        if not v[i]:
            i += 1
            continue
        s = i
        last_valid = i
        j = i + 1
        gap = 0
        while j < n:
            if v[j]:
                last_valid = j
                gap = 0
            else:
                gap += 1
                if gap > mcs:
                    break
            j += 1
        e_ext = j - 1
        p = s
        contiguous = False
        while p + mx - 1 <= e_ext:
            toks.append((p, p + mx - 1))
            p = p + mx
            contiguous = True
        if p <= e_ext:
            if last_valid >= p:
                end = last_valid if drop else e_ext
                ln = end - p + 1
                if (ln >= mn) or (contiguous and not strict):
                    toks.append((p, end))
        i = j + 1 if j < n else n
    return toks


def run_tokenizer(auditok, valid, mn, mx, mcs, init_min=0, ims=0, mode=0, delivery="list", falsy=False):
    frames = [(CFalsyFrame if (falsy is True or (falsy == "mixed" and i % 2 == 0)) else CFrame)(i, bool(b)) for i, b in enumerate(valid)]
    val = (lambda f: True if f.valid else None) if falsy == "none-validator" else (lambda f: f.valid)
    tk = auditok.StreamTokenizer(val, mn, mx, mcs, init_min=init_min, init_max_silence=ims, mode=mode)
    src = CSource(frames)
    if delivery == "list":
        toks = tk.tokenize(src)
    elif delivery == "generator":
        toks = list(tk.tokenize(src, generator=True))
    else:
        toks = []
        tk.tokenize(src, callback=lambda d, s, e: toks.append((d, s, e)))
    return frames, toks, src
