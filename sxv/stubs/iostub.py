"""In-memory stand-ins for builtins.open, os.path.exists, the wave module and sys.stdin.buffer.
Contract (DESIGN §8.2): read(k) returns exactly min(k, remaining) bytes, an empty bytes object at the end;
k None or negative means everything that remains; wav data is whole frames."""
import os as _os
import types

import z3

from ..engine import Engine, Unsupported, S
from ..values import SymBytes, SymInt, lift, toint


def _plain(sb):
    """fully literal content is handed out as real bytes (so that code outside the modelled fragment, e.g. real numpy, can use it)"""
    if isinstance(sb, SymBytes) and all(g[0] == "c" for g in sb.segs):
        return bytes(sb)
    return sb


class RawEntry:
    def __init__(self, data):
        self.data = lift(data)


class WavEntry:
    def __init__(self, data, rate, width, channels):
        self.data = lift(data)
        self.rate, self.width, self.channels = rate, width, channels


class FS:
    """file table keyed by path string"""

    def __init__(self):
        self.files = {}
        self.log = []
        self.open_handles = 0

    def key(self, p):
        return str(p)


class StubFile:
    def __init__(self, fs, path, mode):
        self.fs, self.path, self.mode = fs, path, mode
        self.closed = False
        fs.open_handles += 1
        if "r" in mode:
            ent = fs.files.get(path)
            if ent is None:
                raise FileNotFoundError(path)
            if isinstance(ent, WavEntry):
                raise Unsupported("raw open of a wav entry")
            self.data = ent.data
            self.pos = z3.IntVal(0)
        else:
            self.chunks = SymBytes([])
            fs.files[path] = RawEntry(self.chunks)

    def read(self, k=None):
        if self.closed:
            raise ValueError("I/O operation on closed file.")
        n = self.data.length()
        if k is None or (isinstance(k, int) and k < 0):
            end = n
        else:
            kt = S(toint(k))
            if Engine.cur.branch(kt < 0):
                end = n
            else:
                end = S(self.pos + kt)
                if Engine.cur.branch(end > n):
                    end = n
        out = self.data[slice(SymInt(self.pos), SymInt(end))]
        self.pos = S(self.pos + out.length())
        return _plain(out)

    def read1(self, k=-1):
        """BufferedReader.read1: at most k bytes, possibly fewer although more will follow (what a pipe does)"""
        if Engine.cur.choose(2) == 0:
            return self.read(k)
        return self.read(1)

    def write(self, data):
        if self.closed:
            raise ValueError("I/O operation on closed file.")
        self.chunks = self.chunks + lift(data)
        self.fs.files[self.path] = RawEntry(self.chunks)
        self.fs.log.append(("write", self.path))

    def close(self):
        if not self.closed:
            self.closed = True
            self.fs.open_handles -= 1

    def __enter__(self):
        return self

    def __exit__(self, *a):
        self.close()


class WaveRead:
    def __init__(self, fs, path):
        ent = fs.files.get(path)
        if ent is None:
            raise FileNotFoundError(path)
        if not isinstance(ent, WavEntry):
            raise Unsupported("wave.open of a raw entry")
        self.fs, self.ent = fs, ent
        self.pos = z3.IntVal(0)
        self.closed = False
        fs.open_handles += 1

    def getframerate(self):
        return self.ent.rate

    def getsampwidth(self):
        return self.ent.width

    def getnchannels(self):
        return self.ent.channels

    def getnframes(self):
        return SymInt(self.ent.data.length()) // (self.ent.width * self.ent.channels)

    def readframes(self, k):
        if self.closed:
            raise ValueError("read of closed wave file")
        fsz = self.ent.width * self.ent.channels
        n = self.ent.data.length()
        if isinstance(k, int) and k < 0:
            end = n
        else:
            kt = S(toint(k))
            if Engine.cur.branch(kt < 0):
                end = n
            else:
                end = S(self.pos + kt * fsz)
                if Engine.cur.branch(end > n):
                    end = n
        out = self.ent.data[slice(SymInt(self.pos), SymInt(end))]
        self.pos = S(self.pos + out.length())
        return _plain(out)

    def close(self):
        if not self.closed:
            self.closed = True
            self.fs.open_handles -= 1

    def __enter__(self):
        return self

    def __exit__(self, *a):
        self.close()


class WaveWrite:
    def __init__(self, fs, path):
        self.fs, self.path = fs, path
        self.rate = self.width = self.channels = None
        self.data = SymBytes([])
        self.closed = False
        self.writes = []
        fs.open_handles += 1
        fs.files[path] = WavEntry(self.data, None, None, None)
        fs.log.append(("wave-open-w", path))

    def setframerate(self, r):
        self.rate = r

    def setsampwidth(self, w):
        self.width = w

    def setnchannels(self, c):
        self.channels = c

    def writeframes(self, data):
        if self.closed:
            raise ValueError("write to closed wave file")
        if None in (self.rate, self.width, self.channels):
            raise Unsupported("wave write before parameters are set")
        self.data = self.data + lift(data)
        self.writes.append(lift(data))
        self.fs.files[self.path] = WavEntry(self.data, self.rate, self.width, self.channels)

    writeframesraw = writeframes

    def close(self):
        if not self.closed:
            self.closed = True
            self.fs.open_handles -= 1
            self.fs.files[self.path] = WavEntry(self.data, self.rate, self.width, self.channels)
            self.fs.files[self.path].finalised = True
            self.fs.log.append(("wave-close", self.path))

    def __enter__(self):
        return self

    def __exit__(self, *a):
        self.close()


def make_wave_module(fs):
    m = types.ModuleType("wave")

    def open_(f, mode=None):
        f = str(f)
        if mode in (None, "r", "rb"):
            return WaveRead(fs, f)
        if mode in ("w", "wb"):
            return WaveWrite(fs, f)
        raise ValueError("mode must be 'r', 'rb', 'w', or 'wb'")
    m.open = open_
    m.Error = type("Error", (Exception,), {})
    return m


def make_open(fs):
    def open_(path, mode="r", *a, **k):
        return StubFile(fs, str(path), mode)
    return open_


class OsPathStub:
    def __init__(self, fs):
        self.fs = fs

    def exists(self, p):
        return str(p) in self.fs.files

    def __getattr__(self, n):
        return getattr(_os.path, n)


class OsStub:
    def __init__(self, fs):
        self.path = OsPathStub(fs)
        self._fs = fs

    def remove(self, p):
        self._fs.files.pop(str(p), None)

    def __getattr__(self, n):
        return getattr(_os, n)


class StdinStub:
    """object standing for `sys` inside auditok.io: only stdin.buffer.read is provided"""

    def __init__(self, data):
        fs = FS()
        fs.files["<stdin>"] = RawEntry(data)
        self.stdin = types.SimpleNamespace(buffer=StubFile(fs, "<stdin>", "rb"))

    def __getattr__(self, n):
        import sys
        return getattr(sys, n)


def install(L, fs, stdin_data=None):
    """rebinds open / wave / os / sys inside the loaded io (and workers, core) modules"""
    io = L.modules["io"]
    io.open = make_open(fs)
    io.wave = make_wave_module(fs)
    io.os = OsStub(fs)
    if stdin_data is not None:
        io.sys = StdinStub(stdin_data)
    if "core" in L.modules:
        L.modules["core"].os = OsStub(fs)
    if "workers" in L.modules:
        w = L.modules["workers"]
        w.wave = io.wave
        w.open = io.open
        w.os = OsStub(fs)
