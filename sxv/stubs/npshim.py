"""numpy stand-in for the energy kernel (DESIGN §8.1).  Arrays are nested python lists of z3 Real terms with a
concrete shape; sqrt, log10 and squaring are uninterpreted functions whose axioms are instantiated on the recorded
argument terms.  Anything not listed raises Unsupported."""
import itertools

import numpy as real_np
import z3

from ..engine import Unsupported
from ..values import SymBool

R = z3.RealSort()
SQRT = z3.Function("sqrt", R, R)
LOG10 = z3.Function("log10", R, R)
SQ = z3.Function("sq", R, R)


class Window(list):
    """a window of symbolic bytes (BitVec 8 terms); stands for `bytes` handed to the validator"""
    __sx_proxy__ = True

    def __sx_isinstance__(self, Ts):
        return True if bytes in Ts else None


class TypedWindow:
    """a window handed over as a typed buffer (array.array('h'), a typed memoryview): len() and slicing count ITEMS of
    `itemsize` bytes, the buffer protocol exposes all the bytes"""
    __sx_proxy__ = True

    def __init__(self, bytes_, itemsize):
        self.b = list(bytes_)
        self.itemsize = itemsize

    def __len__(self):
        return len(self.b) // self.itemsize

    def __sx_len__(self):
        return len(self)

    def __getitem__(self, i):
        if isinstance(i, slice):
            idx = range(len(self))[i]
            out = []
            for k in idx:
                out += self.b[k * self.itemsize:(k + 1) * self.itemsize]
            return TypedWindow(out, self.itemsize)
        raise Unsupported("TypedWindow[int]")

    def __bool__(self):
        return len(self.b) > 0


class Arr:
    __sx_proxy__ = True

    def __init__(self, shape, flat, rec):
        self.shape = tuple(shape)
        self.flat = list(flat)
        self.rec = rec

    def astype(self, dt):
        if dt is not Shim.float64 and dt is not float:
            raise Unsupported("astype(%r)" % (dt,))
        return Arr(self.shape, [z3.ToReal(x) if x.sort() == z3.IntSort() else x for x in self.flat], self.rec)

    def reshape(self, *shape, order="C"):
        n = len(self.flat)
        shape = list(shape[0]) if len(shape) == 1 and isinstance(shape[0], (tuple, list)) else list(shape)
        if -1 in shape:
            k = 1
            for s in shape:
                if s != -1:
                    k *= s
            if k == 0 or n % k:
                raise ValueError("cannot reshape array of size %d into shape %s" % (n, tuple(shape)))
            shape[shape.index(-1)] = n // k
        if len(shape) != 2 or len(self.shape) != 1:
            raise Unsupported("reshape %s -> %s" % (self.shape, shape))
        r, c = shape
        if r * c != n:
            raise ValueError("cannot reshape array of size %d into shape %s" % (n, tuple(shape)))
        if order == "F":
            flat = [self.flat[i + j * r] for i in range(r) for j in range(c)]
        elif order == "C":
            flat = list(self.flat)
        else:
            raise Unsupported("order=%r" % order)
        return Arr((r, c), flat, self.rec)

    def __pow__(self, k):
        if k != 2:
            raise Unsupported("** %r" % (k,))
        self.rec["sq"] += self.flat
        return Arr(self.shape, [SQ(x) for x in self.flat], self.rec)

    def __mul__(self, k):
        if isinstance(k, Arr):
            if k.shape != self.shape:
                raise Unsupported("broadcast")
            if all(a is b for a, b in zip(self.flat, k.flat)):
                return self ** 2
            raise Unsupported("array * array")
        return Arr(self.shape, [k * x for x in self.flat], self.rec)
    __rmul__ = __mul__

    def __getitem__(self, i):
        if len(self.shape) == 1 and isinstance(i, slice):
            flat = self.flat[i]
            return Arr((len(flat),), flat, self.rec)
        if len(self.shape) == 1 and isinstance(i, int):
            return Arr((), [self.flat[i]], self.rec)
        if len(self.shape) == 2 and isinstance(i, slice):
            r, c = self.shape
            rows = list(range(r))[i]
            return Arr((len(rows), c), [x for k in rows for x in self.flat[k * c:(k + 1) * c]], self.rec)
        if len(self.shape) == 2 and isinstance(i, tuple) and len(i) == 2 and isinstance(i[0], int) and isinstance(i[1], (int, slice)):
            row = self[i[0]]
            return row[i[1]]
        if len(self.shape) != 2 or not isinstance(i, int):
            raise Unsupported("index %r on shape %s" % (i, self.shape))
        r, c = self.shape
        if i < 0:
            i += r
        if not 0 <= i < r:
            raise IndexError("index out of bounds")
        return Arr((c,), self.flat[i * c:(i + 1) * c], self.rec)

    def mean(self, axis=None):
        if len(self.shape) == 1:
            if axis not in (-1, 0, None):
                raise Unsupported("axis")
            return Arr((), [z3.Sum(self.flat) / len(self.flat)], self.rec)
        r, c = self.shape
        if axis in (-1, 1):
            return Arr((r,), [z3.Sum(self.flat[i * c:(i + 1) * c]) / c for i in range(r)], self.rec)
        if axis == 0:
            return Arr((c,), [z3.Sum([self.flat[i * c + j] for i in range(r)]) / r for j in range(c)], self.rec)
        raise Unsupported("mean axis=%r" % (axis,))

    def _cmp(self, o, op):
        if len(self.flat) != 1:
            raise ValueError("The truth value of an array with more than one element is ambiguous")
        from ..values import SymRat, SymInt
        if isinstance(o, SymRat):
            o = z3.ToReal(o.num) / o.den
        elif isinstance(o, SymInt):
            o = z3.ToReal(o.t)
        elif isinstance(o, (int, float)):
            o = realval(o)
        return SymBool(op(self.flat[0], o))

    def __ge__(self, o):
        return self._cmp(o, lambda a, b: a >= b)

    def __gt__(self, o):
        return self._cmp(o, lambda a, b: a > b)

    def __le__(self, o):
        return self._cmp(o, lambda a, b: a <= b)

    def __lt__(self, o):
        return self._cmp(o, lambda a, b: a < b)
    __hash__ = None


def realval(x):
    """float literals are read as the decimal they are written as (1e-10 means 10^-10): the binary rounding of the
    constant is outside the claim"""
    import fractions
    if isinstance(x, float):
        return z3.RealVal(str(fractions.Fraction(repr(x))))
    return z3.RealVal(str(fractions.Fraction(x)))


class Shim:
    """one instance per path: records the arguments of sqrt/log10/sq"""
    float64 = "f8"
    int8, int16, int32 = real_np.int8, real_np.int16, real_np.int32
    uint8, uint16, uint32 = real_np.uint8, real_np.uint16, real_np.uint32

    def __init__(self):
        self.rec = {"sqrt": [], "log10": [], "sq": []}

    def frombuffer(self, data, dtype=None):
        dt = real_np.dtype(dtype)
        if dt.kind not in "iu":
            raise Unsupported("frombuffer dtype %r" % (dtype,))
        w = dt.itemsize
        signed = dt.kind == "i"
        little = dt.byteorder in ("<", "=", "|")
        if isinstance(data, TypedWindow):
            data = data.b
        if len(data) % w:
            raise ValueError("buffer size must be a multiple of element size")
        out = []
        for k in range(0, len(data), w):
            bs = list(data[k:k + w])
            if little:
                bs = bs[::-1]
            bv = z3.Concat(*bs) if w > 1 else bs[0]
            out.append(z3.BV2Int(bv, is_signed=signed))
        return Arr((len(out),), out, self.rec)

    def array(self, x):
        """np.array copies"""
        if isinstance(x, Arr):
            return Arr(x.shape, list(x.flat), self.rec)
        raise Unsupported("np.array(%r)" % type(x))

    def asarray(self, x, dtype=None):
        """np.asarray: the very same object when no conversion is needed"""
        if not isinstance(x, Arr):
            raise Unsupported("np.asarray(%r)" % type(x))
        if dtype is None or not x.flat:
            return x
        if dtype is not Shim.float64 and dtype is not float:
            raise Unsupported("asarray dtype %r" % (dtype,))
        if all(v.sort() == z3.RealSort() for v in x.flat):
            return x
        return x.astype(dtype)

    def square(self, x, out=None):
        self.rec["sq"] += x.flat
        new = [SQ(v) for v in x.flat]
        if out is None:
            return Arr(x.shape, new, self.rec)
        if not isinstance(out, Arr) or out.shape != x.shape:
            raise Unsupported("square(out=%r)" % type(out))
        out.flat[:] = new
        return out

    def mean(self, x, axis=None):
        return x.mean(axis)

    def sqrt(self, x):
        self.rec["sqrt"] += x.flat
        return Arr(x.shape, [SQRT(v) for v in x.flat], self.rec)

    def clip(self, x, a_min=None, a_max=None):
        out = []
        for v in x.flat:
            if a_min is not None:
                v = z3.If(v < realval(a_min), realval(a_min), v)
            if a_max is not None:
                v = z3.If(v > realval(a_max), realval(a_max), v)
            out.append(v)
        return Arr(x.shape, out, self.rec)

    def log10(self, x):
        self.rec["log10"] += x.flat
        return Arr(x.shape, [LOG10(v) for v in x.flat], self.rec)

    def max(self, x, axis=None):
        m = x.flat[0]
        for v in x.flat[1:]:
            m = z3.If(v > m, v, m)
        return Arr((), [m], self.rec)

    def min(self, x, axis=None):
        m = x.flat[0]
        for v in x.flat[1:]:
            m = z3.If(v < m, v, m)
        return Arr((), [m], self.rec)

    def __getattr__(self, n):
        raise Unsupported("numpy.%s is not modelled" % n)

    # ---------------------------------------------------------------- axioms
    def axioms(self, extra_sq=(), extra_log=()):
        ax = []
        c10, c20 = z3.RealVal("1/10000000000"), z3.RealVal("1/100000000000000000000")
        for a in self.rec["sqrt"]:
            ax += [SQRT(a) >= 0, z3.Implies(a > 0, 2 * LOG10(SQRT(a)) == LOG10(a)), (SQRT(a) < c10) == (a < c20),
                   (SQRT(a) == 0) == (a == 0)]
        ax.append(2 * LOG10(c10) == LOG10(c20))
        sqs, seen = [], set()
        for a in list(self.rec["sq"]) + list(extra_sq):      # structurally identical terms once (long windows of constants)
            if a.get_id() not in seen:
                seen.add(a.get_id())
                sqs.append(a)
        for a in sqs:
            ax += [SQ(a) >= 0, SQ(a) == SQ(-a), (SQ(a) == 0) == (a == 0)]
        for a, b in itertools.combinations(sqs, 2):
            absa, absb = z3.If(a < 0, -a, a), z3.If(b < 0, -b, b)
            ax += [z3.Implies(absa < absb, SQ(a) < SQ(b)), z3.Implies(absa == absb, SQ(a) == SQ(b))]
        logs, seen = [], set()
        for a in list(self.rec["log10"]) + list(extra_log):
            if a.get_id() not in seen:
                seen.add(a.get_id())
                logs.append(a)
        for a, b in itertools.combinations(logs, 2):
            ax += [z3.Implies(z3.And(a > 0, b > 0, a < b), LOG10(a) < LOG10(b)), z3.Implies(a == b, LOG10(a) == LOG10(b))]
        return ax


def install(L, shim):
    L.modules["signal"].np = shim
    L.modules["util"].np = shim


# ------------------------------------------------------------ self-validation
def validate_against_numpy(L, trials=200, seed=0):
    """runs the shim on concrete windows next to real numpy (validation of the stub, not part of any verdict):
    to_array through the shim must decode to the same integers as numpy does"""
    import random
    rnd = random.Random(seed)
    bad = 0
    for _ in range(trials):
        sw = rnd.choice((1, 2, 4))
        ch = rnd.choice((1, 2, 3))
        n = rnd.choice((1, 2, 3, 5))
        raw = bytes(rnd.randrange(256) for _ in range(sw * ch * n))
        shim = Shim()
        dt = {1: real_np.int8, 2: real_np.int16, 4: real_np.int32}[sw]
        arr = shim.frombuffer(Window([z3.BitVecVal(b, 8) for b in raw]), dtype=dt).astype(Shim.float64).reshape(ch, -1, order="F")
        got = [[int(str(z3.simplify(arr.flat[c * n + i])).replace("ToReal(", "").replace(")", "").split("/")[0]) for i in range(n)] for c in range(ch)]
        want = real_np.frombuffer(raw, dtype={1: real_np.int8, 2: real_np.int16, 4: real_np.int32}[sw]).reshape(ch, -1, order="F").tolist()
        if got != want or arr.shape != (ch, n):
            bad += 1
    return trials, bad
