"""Cooperative scheduler standing for `threading.Thread` and `queue.Queue` (DESIGN §5 C12-C14, §8.3).

Every worker is still a real Python thread running auditok's own run(), but only the thread holding the baton runs; it
hands the baton back at every queue put/get/get_nowait and every join.  Which runnable thread goes next, and whether a
get(timeout=...) on an empty queue times out, are choices forked through the engine (Engine.choose), so a counterexample
carries its complete schedule."""
import sys
import threading
import types
from queue import Empty, Full

from ..engine import Engine, SxControl


class Killed(BaseException):
    pass


class Outcome(SxControl):
    """deadlock / non-termination detected by the scheduler"""

    def __init__(self, kind, detail):
        super().__init__(kind)
        self.kind, self.detail = kind, detail


class Sched:
    cur = None

    def __init__(self, eng, max_timeouts=1, max_preempt=2):
        Sched.cur = self
        self.eng = eng
        self.threads = []
        self.main = _Main()
        self.current = self.main
        self.abort = None
        self.max_timeouts = max_timeouts
        self.max_preempt = max_preempt
        self.preempt = 0
        self.log = []
        self.private = set()
        self.steps = 0
        self.max_steps = 5000
        self.last_run = {}
        self.yield_after_put = True     # the consumer woken by a put may run before the producer continues
        self.yield_on_start = False     # a freshly started thread may run before its creator continues
        self.script = None          # concrete replay: list of (thread name, timed_out) decisions

    def all(self):
        return [self.main] + self.threads

    def yield_(self, can_run, can_timeout=False, what=""):
        me = self.current
        me.can_run, me.can_timeout, me.timed_out, me.what = can_run, can_timeout, False, what
        self._pick(me)
        return me.timed_out

    def _pick(self, me):
        self.steps += 1
        if self.steps > self.max_steps:
            self._fail(me, Outcome("non-termination", "more than %d scheduling steps" % self.max_steps))
        opts = []
        for t in self.all():
            if t.finished or not t.started:
                continue
            if t.can_run():
                opts.append((t, False))
            elif t.can_timeout and t.timeouts < self.max_timeouts:
                opts.append((t, True))
        if not me.finished and me.can_run() and self.preempt >= self.max_preempt:
            opts = [(me, False)]
        if not opts:
            stuck = [(t.name, t.what) for t in self.all() if t.started and not t.finished]
            self._fail(me, Outcome("deadlock", "no thread can run; blocked: %s" % stuck))
        if self.script is not None:
            # replay / fair mode: follow the script; once it is exhausted be fair - prefer threads that can really run over
            # time-outs, least recently run first
            k = 0
            if not self.script:
                order = sorted(range(len(opts)), key=lambda i: (opts[i][1], self.last_run.get(opts[i][0].name, -1)))
                k = order[0]
            if self.script:
                name, to = self.script.pop(0)
                for i, (t, o) in enumerate(opts):
                    if t.name == name and o == to:
                        k = i
                        break
        else:
            k = self.eng.choose(len(opts)) if len(opts) > 1 else 0
        t, to = opts[k]
        if to:
            t.timed_out = True
            t.timeouts += 1
        self.log.append((t.name, to))
        self.last_run[t.name] = self.steps
        if t is me:
            return
        if not me.finished and me.can_run():
            self.preempt += 1
        self.current = t
        t.go.release()
        me.go.acquire()
        if self.abort is not None:
            raise (self.abort if me is self.main else Killed())

    def _fail(self, me, exc):
        self.abort = self.abort or exc
        if me is not self.main:
            self.main.go.release()
            raise Killed()
        raise self.abort

    def thread_done(self, me):
        me.finished = True
        try:
            self._pick(me)
        except Killed:
            pass

    def interpreter_exit(self):
        """the main thread returns: the interpreter waits for the non-daemon threads and then exits, which kills daemon
        threads wherever they are.  Returns the names of the threads killed while still working."""
        self.yield_(lambda: all(t.finished for t in self.threads if t.started and not t.__dict__.get("user_daemon")), what="interpreter exit")
        return [t.name for t in self.threads if t.started and not t.finished]

    def cleanup(self):
        if self.abort is None:
            self.abort = Killed()
        for t in self.threads:
            if t.started and threading.Thread.is_alive(t):
                t.go.release()
        for t in self.threads:
            if t.started:
                threading.Thread.join(t, 2)
        Sched.cur = None


class _Main:
    name = "main"

    def __init__(self):
        self.go = threading.Semaphore(0)
        self.finished = False
        self.started = True
        self.can_run = lambda: True
        self.can_timeout = False
        self.timeouts = 0
        self.what = ""


class CoopThread(threading.Thread):
    def __init__(self, *a, **k):
        super().__init__(*a, **k)
        s = Sched.cur
        # what the code under test asked for (inherited from the creating thread like threading does); the real thread
        # underneath is always a daemon so that an aborted run cannot keep the checker alive
        ud = k.get("daemon")
        if ud is None:
            ud = bool(s.current.__dict__.get("user_daemon", False)) if s is not None else False
        self.__dict__["user_daemon"] = bool(ud)
        self._daemonic = True
        self._s = s
        s.threads.append(self)
        self.go = threading.Semaphore(0)
        self.finished = False
        self.started = False
        self.can_run = lambda: True
        self.can_timeout = False
        self.timeouts = 0
        self.what = ""
        self.name = "%s#%d" % (type(self).__name__, len(s.threads))
        self._user_run = self.run
        self.run = self._wrapped

    @property
    def daemon(self):
        # what threading's own machinery sees: always a daemon (a thread left blocked by an aborted schedule must not keep
        # the interpreter from exiting); the flag the code under test asked for is `user_daemon`
        return True

    @daemon.setter
    def daemon(self, v):
        if self.__dict__.get("started"):
            raise RuntimeError("cannot set daemon status of active thread")
        self.__dict__["user_daemon"] = bool(v)

    def isDaemon(self):
        return self.__dict__.get("user_daemon", False)

    def setDaemon(self, v):
        self.daemon = v

    def _wrapped(self):
        self.go.acquire()
        s = self._s
        try:
            if s.abort is None:
                self._user_run()
        except Killed:
            self.finished = True
            return
        except BaseException as ex:
            s.abort = s.abort or ThreadCrashed(self.name, ex)
            self.finished = True
            s.main.go.release()
            return
        s.thread_done(self)

    def start(self):
        if self.started:
            raise RuntimeError("threads can only be started once")
        super().start()
        self.started = True
        if self._s.yield_on_start and self._s.abort is None:
            self._s.yield_(lambda: True, what="after-start")

    def join(self, timeout=None):
        s = self._s
        if s.current is self:
            raise RuntimeError("cannot join current thread")
        # a bounded join may give up while the thread is still running (the thread may be arbitrarily slow)
        s.yield_(lambda: self.finished, can_timeout=timeout is not None, what="join(%s)" % self.name)

    def is_alive(self):
        return self.started and not self.finished


class ThreadCrashed(SxControl):
    def __init__(self, name, exc):
        super().__init__("%s crashed: %s: %s" % (name, type(exc).__name__, exc))
        self.name, self.exc = name, exc


class CoopQueue:
    def __init__(self, maxsize=0):
        self.items = []
        self.touched = set()
        if isinstance(maxsize, int):
            self.maxsize = maxsize
        else:
            # a symbolic capacity: decided by case split; 13 or more cannot fill up within the bounds of any configuration
            self.maxsize = 0
            try:
                if maxsize > 0:
                    for v in range(1, 13):
                        if maxsize == v:
                            self.maxsize = v
                            break
            except TypeError:
                self.maxsize = 0

    def full(self):
        return self.maxsize > 0 and len(self.items) >= self.maxsize

    def _touch(self):
        if Sched.cur is not None:
            self.touched.add(Sched.cur.current.name)

    def put(self, x, block=True, timeout=None):
        s = Sched.cur
        if s is None or s.abort is not None:
            self.items.append(x)       # outside a scheduled run (e.g. a finaliser): plain queue behaviour
            return
        if self.maxsize > 0:
            if not block:
                s.yield_(lambda: True, what="put_nowait")
                if self.full():
                    raise Full
            else:
                to = s.yield_(lambda: not self.full(), can_timeout=timeout is not None, what="put")
                if to:
                    raise Full
        else:
            s.yield_(lambda: True, what="put")
        self._touch()
        self.items.append(x)
        if s.yield_after_put and id(self) not in s.private:
            s.yield_(lambda: True, what="after-put")

    def put_nowait(self, x):
        return self.put(x, block=False)

    def get(self, block=True, timeout=None):
        s = Sched.cur
        if s is None or s.abort is not None:
            if not self.items:
                raise Empty
            return self.items.pop(0)
        to = s.yield_(lambda: len(self.items) > 0, can_timeout=timeout is not None, what="get")
        self._touch()
        if to:
            raise Empty
        return self.items.pop(0)

    def get_nowait(self):
        s = Sched.cur
        if s is None or s.abort is not None:
            if not self.items:
                raise Empty
            return self.items.pop(0)
        if id(self) not in s.private:
            s.yield_(lambda: True, what="get_nowait")
        self._touch()
        if not self.items:
            raise Empty
        return self.items.pop(0)

    def empty(self):
        return not self.items

    def qsize(self):
        return len(self.items)


class CoopEvent:
    def __init__(self):
        self._flag = False

    def is_set(self):
        return self._flag
    isSet = is_set

    def set(self):
        s = Sched.cur
        if s is not None and s.abort is None:
            s.yield_(lambda: True, what="event.set")
        self._flag = True

    def clear(self):
        self._flag = False

    def wait(self, timeout=None):
        s = Sched.cur
        if s is None or s.abort is not None:
            return self._flag
        s.yield_(lambda: self._flag, can_timeout=timeout is not None, what="event.wait")
        return self._flag


class CoopLock:
    def __init__(self):
        self._owner = None
        self._count = 0

    def acquire(self, blocking=True, timeout=-1):
        s = Sched.cur
        if s is None or s.abort is not None:
            self._count += 1
            return True
        me = s.current
        if self._owner is me and type(self).__name__ == "CoopRLock":
            self._count += 1
            return True
        if not blocking:
            s.yield_(lambda: True, what="lock.try")
            if self._owner is not None:
                return False
        else:
            to = s.yield_(lambda: self._owner is None, can_timeout=timeout is not None and timeout >= 0, what="lock.acquire")
            if to:
                return False
        self._owner, self._count = me, 1
        return True

    def release(self):
        self._count -= 1
        if self._count <= 0:
            self._owner, self._count = None, 0

    def locked(self):
        return self._owner is not None

    def __enter__(self):
        self.acquire()
        return self

    def __exit__(self, *a):
        self.release()


class CoopRLock(CoopLock):
    pass


def coop_sleep(seconds=0):
    """time.sleep: the sleeper resumes only when no other thread can run (a fair stand-in for 'later')"""
    s = Sched.cur
    if s is None:
        return
    me = s.current
    s.yield_(lambda: not any(t is not me and t.started and not t.finished and t.can_run() for t in s.all()), what="sleep")


def time_module():
    import time as _time
    m = types.ModuleType("sx_time")
    m.__dict__.update({k: v for k, v in _time.__dict__.items() if not k.startswith("__")})
    m.sleep = coop_sleep
    sys.modules["sx_time"] = m
    return "sx_time"


def modules():
    """stub modules to be imported instead of threading / queue by the loaded workers module"""
    ft = types.ModuleType("sx_threading")
    ft.Thread = CoopThread
    ft.enumerate = lambda: [Sched.cur.main] + [t for t in Sched.cur.threads if t.is_alive()] if Sched.cur else []
    ft.current_thread = threading.current_thread
    ft.Event = CoopEvent
    ft.Lock = CoopLock
    ft.RLock = CoopRLock
    ft.main_thread = threading.main_thread
    ft.__getattr__ = lambda name: getattr(threading, name)      # anything else: the real thing (not modelled)
    fq = types.ModuleType("sx_queue")
    fq.Queue = CoopQueue
    fq.Empty = Empty
    fq.Full = Full
    import queue as _q
    fq.SimpleQueue = CoopQueue
    fq.LifoQueue = _q.LifoQueue
    fq.PriorityQueue = _q.PriorityQueue
    sys.modules["sx_threading"] = ft
    sys.modules["sx_queue"] = fq
    return {"threading": "sx_threading", "queue": "sx_queue"}
