import argparse
import importlib
import json
import os
import sys
import traceback

from .report import Report, VERIF, EnoughViolations


def load_known():
    p = os.path.join(VERIF, "known_findings.json")
    try:
        return json.load(open(p)).get("findings", [])
    except (OSError, ValueError):
        return []


def main(argv=None):
    import faulthandler
    import signal
    faulthandler.register(signal.SIGUSR1, all_threads=True)
    ap = argparse.ArgumentParser()
    ap.add_argument("prop")
    ap.add_argument("--tier", default=None)
    ap.add_argument("--replay", default=None)
    a = ap.parse_args(argv)
    tier = os.environ.get("VERIF_TIER") or a.tier or "quick"
    if tier not in ("quick", "thorough"):
        tier = "quick"
    try:
        seed = int(os.environ.get("VERIF_SEED", "0"))
    except ValueError:
        seed = 0
    os.environ["SXV_TIER"] = tier
    prop = a.prop.upper()
    try:
        mod = importlib.import_module("sxv.props.%s" % prop.lower())
    except ImportError as ex:
        print("no check for %s: %s" % (prop, ex), file=sys.stderr)
        return 3
    if a.replay:
        blob = json.load(open(a.replay))
        ok, msg = mod.replay(blob["replay"])
        print(("REPRODUCED: " if ok else "not reproduced: ") + msg)
        if ok:
            print("VIOLATION property=%s replay=%s" % (prop, a.replay))
        return 1 if ok else 0
    rep = Report(prop, tier, seed)
    try:
        mod.run(rep)
    except EnoughViolations:
        pass
    except BaseException as ex:
        if isinstance(ex, KeyboardInterrupt):
            raise
        rep.harness_errors.append("%s: %s\n%s" % (type(ex).__name__, ex, traceback.format_exc()[-2000:]))
    return rep.finish(load_known())


if __name__ == "__main__":
    sys.exit(main())
