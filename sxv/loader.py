"""Load auditok's own source from the working tree as a private package `sxauditok`, after one
mechanical AST pass that redirects the builtins CPython will not dispatch through dunders."""
import ast
import builtins
import hashlib
import math
import os
import sys
import types

import z3

from .engine import Engine, Unsupported, S
from . import values as V
from .values import SymBool, SymInt, SymRat, SymBytes, GList, Placeholder

REPO = os.environ.get("SXV_REPO", "/repo")
PKG = "sxauditok"


# ------------------------------------------------------------------- shims
def is_proxy(x):
    return isinstance(x, (SymBool, SymInt, SymRat, SymBytes, GList)) or getattr(type(x), "__sx_proxy__", False)


def sx_len(x):
    if isinstance(x, SymBytes):
        t = x.length()
        if z3.is_int_value(t):
            return t.as_long()        # fully concrete content: behave like bytes
        return SymInt(t)
    f = getattr(type(x), "__sx_len__", None)
    if f is not None:
        return f(x)
    if isinstance(x, (list, tuple, dict, str, bytes, bytearray, set, frozenset, range)):
        return builtins.len(x)
    f = getattr(type(x), "__len__", None)
    if f is None:
        raise TypeError("object of type %r has no len()" % type(x).__name__)
    return f(x)   # user classes (AudioRegion.__len__) may legitimately return a SymInt


def sx_int(x=0, *a):
    if a:
        return builtins.int(x, *a)
    if isinstance(x, SymInt):
        return x
    if isinstance(x, SymBool):
        return SymInt(z3.If(x.t, 1, 0))
    if isinstance(x, SymRat):
        return x.__trunc__()
    f = getattr(type(x), "__sx_int__", None)
    if f is not None:
        return f(x)
    return builtins.int(x)


def sx_float(x=0.0):
    if isinstance(x, (SymRat,)):
        return x
    if isinstance(x, SymInt):
        return SymRat.of(x)
    f = getattr(type(x), "__sx_float__", None)
    if f is not None:
        return f(x)
    return builtins.float(x)


def sx_bool(x=False):
    if isinstance(x, SymBool):
        return x
    if isinstance(x, SymInt):
        return SymBool(x.t != 0)
    return builtins.bool(x)


def sx_round(x, nd=None):
    if is_proxy(x):
        return x.__round__() if nd is None else x.__round__(nd)
    return builtins.round(x) if nd is None else builtins.round(x, nd)


def sx_isinstance(x, T):
    Ts = T if isinstance(T, tuple) else (T,)
    if isinstance(x, SymInt):
        return int in Ts or object in Ts
    if isinstance(x, SymBool):
        return bool in Ts or int in Ts
    if isinstance(x, SymRat):
        return float in Ts
    if isinstance(x, SymBytes):
        return bytes in Ts
    k = getattr(type(x), "__sx_isinstance__", None)
    if k is not None:
        r = k(x, Ts)
        if r is not None:
            return r
    return builtins.isinstance(x, T)


def sx_bytes(*a, **k):
    if len(a) == 1 and not k:
        x = a[0]
        if isinstance(x, SymBytes):
            return x
        f = getattr(type(x), "__bytes__", None)
        if f is not None and not isinstance(x, (bytes, bytearray)):
            return f(x)
    return builtins.bytes(*a, **k)


def _minmax(name, pick_first_if):
    real = getattr(builtins, name)

    def f(*a, **k):
        if k or len(a) < 2 or not any(is_proxy(v) for v in a):
            return real(*a, **k)
        best = a[0]
        for v in a[1:]:
            if pick_first_if(v, best):
                best = v
        return best
    return f


sx_min = _minmax("min", lambda v, best: v < best)
sx_max = _minmax("max", lambda v, best: v > best)


def sx_abs(x):
    return x.__abs__() if is_proxy(x) else builtins.abs(x)


def sx_divmod(a, b):
    if isinstance(a, SymInt):
        return a.__divmod__(b)
    if isinstance(b, SymInt):
        return b.__rdivmod__(a)
    return builtins.divmod(a, b)


def sx_range(*a):
    return builtins.range(*[V.concretise(x, "range") if isinstance(x, SymInt) else x for x in a])


def sx_join(recv, it):
    if isinstance(recv, (bytes, bytearray, SymBytes)):
        parts = list(it)
        return V.lift(recv).join(parts)
    return recv.join(it)


def sx_getitem(x, i):
    if isinstance(x, (bytes, bytearray)) and isinstance(i, slice) and any(is_proxy(v) for v in (i.start, i.stop)):
        return V.lift(bytes(x))[i]
    return x[i]


def sx_ceil(x):
    return x.__ceil__() if is_proxy(x) else math.ceil(x)


def sx_floor(x):
    return x.__floor__() if is_proxy(x) else math.floor(x)


SHIMS = {"len": sx_len, "int": sx_int, "float": sx_float, "bool": sx_bool, "round": sx_round,
         "isinstance": sx_isinstance, "bytes": sx_bytes, "min": sx_min, "max": sx_max, "abs": sx_abs,
         "divmod": sx_divmod, "range": sx_range}


class Pass(ast.NodeTransformer):
    def __init__(self, import_map=None):
        self.rewrites = 0
        self.import_map = import_map or {}

    def visit_ImportFrom(self, node):
        if node.level == 0 and node.module in self.import_map:
            node.module = self.import_map[node.module]
            self.rewrites += 1
        return node

    def visit_Import(self, node):
        for a in node.names:
            if a.name in self.import_map:
                if a.asname is None:
                    a.asname = a.name
                a.name = self.import_map[a.name]
                self.rewrites += 1
        return node

    def visit_Call(self, node):
        self.generic_visit(node)
        f = node.func
        if isinstance(f, ast.Name) and f.id in SHIMS:
            node.func = ast.copy_location(ast.Name(id="__sx_%s__" % f.id, ctx=ast.Load()), f)
            self.rewrites += 1
            return node
        if isinstance(f, ast.Attribute) and f.attr == "join" and len(node.args) == 1 and not node.keywords:
            self.rewrites += 1
            return ast.copy_location(
                ast.Call(func=ast.Name(id="__sx_join__", ctx=ast.Load()), args=[f.value, node.args[0]], keywords=[]),
                node)
        return node

    def visit_Subscript(self, node):
        self.generic_visit(node)
        if isinstance(node.ctx, ast.Load) and isinstance(node.slice, ast.Slice):
            self.rewrites += 1
            return ast.copy_location(
                ast.Call(func=ast.Name(id="__sx_getitem__", ctx=ast.Load()),
                         args=[node.value, ast.Call(func=ast.Name(id="slice", ctx=ast.Load()),
                                                    args=[node.slice.lower or ast.Constant(None),
                                                          node.slice.upper or ast.Constant(None),
                                                          node.slice.step or ast.Constant(None)], keywords=[])],
                         keywords=[]), node)
        return node


class MathShim(types.ModuleType):
    """`math` as seen by the loaded code: ceil/floor dispatch to proxies"""

    def __init__(self):
        super().__init__("math")
        self.__dict__.update(math.__dict__)
        self.ceil = sx_ceil
        self.floor = sx_floor


MODULE_ORDER = ["exceptions", "io", "signal", "plotting", "util", "core", "dataset", "workers", "cmdline_util", "cmdline"]


class Loaded:
    def __init__(self):
        self.modules = {}
        self.hashes = {}
        self.rewrites = {}

    def __getattr__(self, n):
        try:
            return self.modules[n]
        except KeyError:
            raise AttributeError(n)


def load(names=("exceptions", "io", "signal", "plotting", "util", "core"), root=None, overrides=None, pkgname=PKG,
         trace_entered=True, import_map=None):
    """overrides: {module_name: {global_name: object}} injected *before* the module body runs
    (so `from threading import Thread` can be pre-empted via sys.modules stubs by the caller) and
    re-applied after (so that they win over the module's own imports)."""
    root = root or REPO
    overrides = overrides or {}
    L = Loaded()
    pkg = types.ModuleType(pkgname)
    pkg.__path__ = []
    pkg.__package__ = pkgname
    sys.modules[pkgname] = pkg
    for n in MODULE_ORDER:
        if n not in names:
            continue
        path = os.path.join(root, "auditok", n + ".py")
        try:
            src = open(path).read()
        except OSError as ex:
            raise Unsupported("cannot read %s: %s" % (path, ex))
        L.hashes["auditok/%s.py" % n] = hashlib.sha256(src.encode()).hexdigest()
        try:
            tree = ast.parse(src, path)
        except SyntaxError as ex:
            raise Unsupported("cannot parse %s: %s" % (path, ex))
        p = Pass(import_map if n in ("workers", "cmdline", "cmdline_util") else None)
        tree = p.visit(tree)
        ast.fix_missing_locations(tree)
        L.rewrites[n] = p.rewrites
        m = types.ModuleType(pkgname + "." + n)
        m.__package__ = pkgname
        m.__file__ = path
        d = m.__dict__
        d["__sx_join__"] = sx_join
        d["__sx_getitem__"] = sx_getitem
        for k, f in SHIMS.items():
            d["__sx_%s__" % k] = f
        for k, v in overrides.get(n, {}).items():
            d[k] = v
        sys.modules[pkgname + "." + n] = m
        setattr(pkg, n, m)
        saved_ak = sys.modules.get("auditok")
        if n == "cmdline":
            # `from auditok import AudioRegion, __version__` must resolve to the loaded package, not the installed one
            for k in getattr(L.modules.get("core"), "__all__", []):
                setattr(pkg, k, getattr(L.modules["core"], k))
            try:
                for line in open(os.path.join(root, "auditok", "__init__.py")):
                    if line.startswith("__version__"):
                        exec(line, pkg.__dict__)
            except OSError:
                pass
            sys.modules["auditok"] = pkg
        try:
            exec(compile(tree, path, "exec"), d)
        finally:
            if n == "cmdline":
                if saved_ak is None:
                    sys.modules.pop("auditok", None)
                else:
                    sys.modules["auditok"] = saved_ak
        if "math" in d and isinstance(d["math"], types.ModuleType):
            d["math"] = MathShim()
        for k, v in overrides.get(n, {}).items():
            d[k] = v
        L.modules[n] = m
    # the package's own __init__ re-exports
    for n in ("core", "io", "util", "exceptions"):
        if n in L.modules:
            mod = L.modules[n]
            for k in getattr(mod, "__all__", []):
                setattr(pkg, k, getattr(mod, k))
    try:
        init_src = open(os.path.join(root, "auditok", "__init__.py")).read()
        L.hashes["auditok/__init__.py"] = hashlib.sha256(init_src.encode()).hexdigest()
        for line in init_src.splitlines():
            if line.startswith("__version__"):
                exec(line, pkg.__dict__)
    except OSError:
        pass
    return L


def real_auditok(root=None):
    """the unmodified package, for replay"""
    root = root or REPO
    if root not in sys.path:
        sys.path.insert(0, root)
    import importlib
    for k in [k for k in sys.modules if k == "auditok" or k.startswith("auditok.")]:
        del sys.modules[k]
    return importlib.import_module("auditok")


# ------------------------------------------------------- coverage of functions
class EnterTracer:
    """records which functions of the loaded package were entered (observed, not declared)"""

    def __init__(self, root=None):
        self.prefix = os.path.join(root or REPO, "auditok") + os.sep
        self.seen = set()

    def __enter__(self):
        def prof(frame, event, arg):
            if event == "call":
                co = frame.f_code
                if co.co_filename.startswith(self.prefix):
                    self.seen.add("%s:%s" % (os.path.basename(co.co_filename), co.co_qualname))
        sys.setprofile(prof)
        return self

    def __exit__(self, *a):
        sys.setprofile(None)
