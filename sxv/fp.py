"""SymFP: Python float as a bit-exact IEEE-754 double (z3 FloatingPoint(11,53), RNE)."""
import z3

from .engine import Engine, Unsupported
from .values import SymBool, SymInt

F = z3.Float64()
RNE = z3.RNE()


def fpv(x):
    if isinstance(x, (SymFP, SymFPInt)):
        return x.t
    if isinstance(x, bool):
        raise TypeError("bool in float arithmetic")
    if isinstance(x, (int, float)):
        return z3.FPVal(float(x), F)
    raise TypeError("fpv(%r)" % type(x))


def ok(x):
    return isinstance(x, (int, float, SymFP, SymFPInt)) and not isinstance(x, bool)


class SymFP:
    __sx_proxy__ = True
    __slots__ = ("t",)

    def __init__(self, t):
        self.t = t

    def __sx_isinstance__(self, Ts):
        return True if float in Ts else None

    def _bin(op):
        def f(self, o):
            if not ok(o):
                return NotImplemented
            return SymFP(op(RNE, self.t, fpv(o)))

        def r(self, o):
            if not ok(o):
                return NotImplemented
            return SymFP(op(RNE, fpv(o), self.t))
        return f, r
    __add__, __radd__ = _bin(z3.fpAdd)
    __sub__, __rsub__ = _bin(z3.fpSub)
    __mul__, __rmul__ = _bin(z3.fpMul)
    __truediv__, __rtruediv__ = _bin(z3.fpDiv)
    del _bin

    def __neg__(self):
        return SymFP(z3.fpNeg(self.t))

    def _cmp(op):
        def f(self, o):
            if not ok(o):
                return NotImplemented
            return SymBool(op(self.t, fpv(o)))
        return f
    __lt__ = _cmp(z3.fpLT)
    __le__ = _cmp(z3.fpLEQ)
    __gt__ = _cmp(z3.fpGT)
    __ge__ = _cmp(z3.fpGEQ)
    del _cmp

    def __eq__(self, o):
        if not ok(o):
            return False
        return SymBool(z3.fpEQ(self.t, fpv(o)))

    def __ne__(self, o):
        if not ok(o):
            return True
        return SymBool(z3.Not(z3.fpEQ(self.t, fpv(o))))
    __hash__ = None

    def __bool__(self):
        return Engine.cur.branch(z3.Not(z3.fpIsZero(self.t)))

    def __ceil__(self):
        return SymFPInt(z3.fpRoundToIntegral(z3.RTP(), self.t))

    def __floor__(self):
        return SymFPInt(z3.fpRoundToIntegral(z3.RTN(), self.t))

    def __trunc__(self):
        return SymFPInt(z3.fpRoundToIntegral(z3.RTZ(), self.t))

    def __round__(self, nd=None):
        if nd is not None:
            raise Unsupported("round(x, n) on SymFP")
        return SymFPInt(z3.fpRoundToIntegral(RNE, self.t))

    def __sx_int__(self):
        return self.__trunc__()

    def __sx_float__(self):
        return self

    def __format__(self, spec):
        return "<fp>"

    def __repr__(self):
        return "SymFP(%s)" % self.t


class SymFPInt(SymFP):
    """an integral-valued double standing for the Python int produced by ceil/floor/round/int"""
    __slots__ = ()

    def __sx_isinstance__(self, Ts):
        return True if int in Ts else None

    def __sx_int__(self):
        return self

    def __index__(self):
        raise Unsupported("integer from a symbolic double used as an index")


def fp_to_float(m, t):
    v = m.eval(t, model_completion=True)
    if z3.is_fp(v):
        if z3.is_fprm(v):
            raise ValueError
        try:
            if v.isNaN():
                return float("nan")
            if v.isInf():
                return float("-inf") if v.isNegative() else float("inf")
        except Exception:
            pass
        sgn = -1.0 if v.sign() else 1.0
        try:
            sig = v.significand_as_long()
            ex = v.exponent_as_long(biased=True)
        except Exception:
            return float(eval(str(v).replace("*(2**", "*(2.0**")))
        if ex == 0:
            return sgn * sig * 2.0 ** (-1022 - 52)
        return sgn * (1 + sig / 2.0 ** 52) * 2.0 ** (ex - 1023)
    raise ValueError("not an FP value: %s" % v)
