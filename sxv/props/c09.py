"""C09 - same audio, same result, whatever the container or parameter spelling.
D-shape: inside one path the same symbolic bytes, activity decisions and window counts are fed to split() through every
container kind and every alias spelling; z3 proves the (start, end, bytes) lists equal to the baseline run on raw bytes."""
import fractions
import io as _io
import os
import shutil
import sys
import tempfile

import z3

from ..engine import explore, S
from ..values import SymBool, SymInt, SymRat, SymBytes, bytes_eq_formula, lift, toint, tobool
from ..stubs import iostub
from .. import loader
from . import byt, tok
from .c20_others import regions_equal

I = z3.Int
BOUNDS = {"quick": dict(K=3), "thorough": dict(K=4)}
CONTAINERS = ["region", "region with start", "region.split", "source", "reader", "raw-eager", "raw-lazy", "wav-eager", "wav-lazy", "IN.WAV", "IN.Raw lazy", "stdin"]
ALIASES = ["short-only", "sr", "sw", "ch", "sr written first", "sw written first", "ch written first", "aw", "val", "mr", "fmt", "eth", "uc"]


def mkval(tag=""):
    calls = []

    def validator(frame):
        k = len(calls)
        calls.append(frame)
        return SymBool(z3.Bool("v%d" % k))
    return validator


def harness(L, sw, ch, sr, K, mode, group):
    core, util, iom = L.modules["core"], L.modules["util"], L.modules["io"]
    bps = sw * ch
    orig_validator_cls = util.AudioEnergyValidator

    def path(e):
        D, data = byt.sym_audio(e, "D", bps)
        n = D.nsamples
        B, Bq, Br = I("B"), I("Bq"), I("Br")
        # analysis window with quarter-sample resolution: aw = Bq/(4*rate), effective window B = floor(Bq/4) samples
        e.assume(z3.And(Bq == 4 * B + Br, Br >= 0, Br < 4, B >= 1, n <= K * B))
        P = {1: I("min_length"), 2: I("max_length"), 3: I("mcs")}
        e.assume(z3.And(P[1] >= 1, P[1] <= P[2], P[3] >= 0, P[3] < P[2]))
        core._duration_to_nb_windows = lambda d, *a, **k: SymInt(P[d])
        fs = iostub.FS()
        fs.files["in.raw"] = iostub.RawEntry(data)
        fs.files["in.wav"] = iostub.WavEntry(data, sr, sw, ch)
        fs.files["in.dat"] = iostub.WavEntry(data, sr, sw, ch)       # wav content behind a non-wav extension
        fs.files["IN.WAV"] = iostub.WavEntry(data, sr, sw, ch)       # extensions as cameras and recorders write them
        fs.files["IN.Raw"] = iostub.RawEntry(data)
        iostub.install(L, fs, stdin_data=data)
        seen = []

        class RecValidator:
            """stands for AudioEnergyValidator: records what split() hands it, answers with the stub decisions"""

            def __init__(self, energy_threshold, sample_width, channels, use_channel=None):
                seen.append((energy_threshold, sample_width, channels, use_channel))
                self.v = mkval()

            def is_valid(self, d):
                return self.v(d)
        core.AudioEnergyValidator = RecValidator
        core.DataValidator.register(RecValidator)
        skw = dict(min_dur=1, max_dur=2, max_silence=3, drop_trailing_silence=bool(mode & 4), strict_min_dur=bool(mode & 2))
        aw = SymRat(Bq, 4 * sr)
        meta = dict(sw=sw, ch=ch, sr=sr, K=K, mode=mode, group=group)
        syms = dict(n=n, B=B, Bq=Bq, min_length=P[1], max_length=P[2], mcs=P[3])
        conds = {}
        stage = "baseline"
        try:
            base = list(core.split(data, sampling_rate=sr, sample_width=sw, channels=ch, analysis_window=aw, validator=mkval(), **skw))
            if group == "containers":
                runs = {}
                stage = "region"
                runs["region"] = list(core.split(core.AudioRegion(data, sr, sw, ch), analysis_window=aw, validator=mkval(), **skw))
                stage = "region with start"
                runs["region with start"] = list(core.split(core.AudioRegion(data, sr, sw, ch, start=SymRat(I("in_start"), 1000)), analysis_window=aw, validator=mkval(), **skw))
                stage = "region.split"
                runs["region.split"] = list(core.AudioRegion(data, sr, sw, ch).split(analysis_window=aw, validator=mkval(), **skw))
                stage = "source"
                runs["source"] = list(core.split(iom.BufferAudioSource(data, sr, sw, ch), analysis_window=aw, validator=mkval(), **skw))
                stage = "reader"
                runs["reader"] = list(core.split(util.AudioReader(data, block_dur=aw, sr=sr, sw=sw, ch=ch), validator=mkval(), **skw))
                for lazy in (False, True):
                    stage = "raw-" + ("lazy" if lazy else "eager")
                    runs[stage] = list(core.split("in.raw", sr=sr, sw=sw, ch=ch, analysis_window=aw, validator=mkval(), large_file=lazy, **skw))
                    stage = "wav-" + ("lazy" if lazy else "eager")
                    runs[stage] = list(core.split("in.wav", analysis_window=aw, validator=mkval(), large_file=lazy, **skw))
                stage = "upper-case extension"
                runs["IN.WAV"] = list(core.split("IN.WAV", analysis_window=aw, validator=mkval(), **skw))
                runs["IN.Raw lazy"] = list(core.split("IN.Raw", sr=sr, sw=sw, ch=ch, analysis_window=aw, validator=mkval(), large_file=True, **skw))
                stage = "stdin"
                runs["stdin"] = list(core.split("-", sr=sr, sw=sw, ch=ch, analysis_window=aw, validator=mkval(), **skw))
                for k_, r in runs.items():
                    conds[("same regions as raw bytes", k_)] = regions_equal(base, r)
                # the same path rewritten with different audio of the same size: what is split is what the file holds now
                stage = "rewritten file"
                D2, data2 = byt.sym_audio(e, "E", bps, n=n, nonneg=False)
                fs.files["in.wav"] = iostub.WavEntry(data2, sr, sw, ch)
                fs.files["in.raw"] = iostub.RawEntry(data2)
                base2 = list(core.split(data2, sampling_rate=sr, sample_width=sw, channels=ch, analysis_window=aw, validator=mkval(), **skw))
                for lazy in (False, True):
                    r_w = list(core.split("in.wav", analysis_window=aw, validator=mkval(), large_file=lazy, **skw))
                    r_r = list(core.split("in.raw", sr=sr, sw=sw, ch=ch, analysis_window=aw, validator=mkval(), large_file=lazy, **skw))
                    conds[("rewritten wav file, %s" % ("lazy" if lazy else "eager"), 0)] = regions_equal(base2, r_w)
                    conds[("rewritten raw file, %s" % ("lazy" if lazy else "eager"), 0)] = regions_equal(base2, r_r)
            elif group == "aliases":
                runs = {}
                stage = "short-only"
                runs["short-only"] = list(core.split(data, sr=sr, sw=sw, ch=ch, aw=aw, val=mkval(), **skw))
                stage = "sr"
                runs["sr"] = list(core.split(data, sampling_rate=sr, sr=sr + 1, sample_width=sw, channels=ch, analysis_window=aw, validator=mkval(), **skw))
                stage = "sw"
                runs["sw"] = list(core.split(data, sampling_rate=sr, sample_width=sw, sw=(4 if sw != 4 else 2), channels=ch, analysis_window=aw, validator=mkval(), **skw))
                stage = "ch"
                runs["ch"] = list(core.split(data, sampling_rate=sr, sample_width=sw, channels=ch, ch=ch + 1, analysis_window=aw, validator=mkval(), **skw))
                # the same three with the short alias written first: precedence must not depend on keyword order
                stage = "alias written first"
                runs["sr-first"] = list(core.split(data, sr=sr + 1, sw=sw, ch=ch, sampling_rate=sr, analysis_window=aw, validator=mkval(), **skw))
                runs["sw-first"] = list(core.split(data, sw=(4 if sw != 4 else 2), sr=sr, ch=ch, sample_width=sw, analysis_window=aw, validator=mkval(), **skw))
                runs["ch-first"] = list(core.split(data, ch=ch + 1, sr=sr, sw=sw, channels=ch, analysis_window=aw, validator=mkval(), **skw))
                stage = "aw"
                runs["aw"] = list(core.split(data, sr=sr, sw=sw, ch=ch, analysis_window=aw, aw=SymRat(Bq + 4, 4 * sr), validator=mkval(), **skw))
                stage = "val"
                runs["val"] = list(core.split(data, sr=sr, sw=sw, ch=ch, analysis_window=aw, validator=mkval(), val=lambda f: False, **skw))
                stage = "long=None"
                runs["validator=None + val"] = None
                runs["max_read=None + mr"] = list(core.split(data, sr=sr, sw=sw, ch=ch, analysis_window=aw, validator=mkval(), max_read=None, mr=SymRat(B, 2 * sr), **skw))
                runs.pop("validator=None + val")
                stage = "fmt"
                runs["fmt"] = list(core.split("in.dat", analysis_window=aw, validator=mkval(), audio_format="wav", fmt="raw", **skw))
                runs["fmt-short"] = list(core.split("in.dat", analysis_window=aw, validator=mkval(), fmt="wav", **skw))
                for k_, r in runs.items():
                    conds[("same regions as the long spelling", k_)] = regions_equal(base, r)
                # energy_threshold / use_channel reach the validator: long wins, short alone is honoured
                stage = "eth"
                del seen[:]
                eth, eth2 = SymRat(I("eth"), 8), SymRat(I("eth") + 8, 8)
                r1 = list(core.split(data, sr=sr, sw=sw, ch=ch, analysis_window=aw, energy_threshold=eth, eth=eth2, use_channel=0, uc="mix", **skw))
                r2 = list(core.split(data, sr=sr, sw=sw, ch=ch, analysis_window=aw, eth=eth, uc="mix", **skw))
                r3 = list(core.split(data, sr=sr, sw=sw, ch=ch, analysis_window=aw, **skw))
                n3 = len(seen)
                r4 = list(core.split(data, sr=sr, sw=sw, ch=ch, analysis_window=aw, validator=None, val=lambda f: False, use_channel=None, uc=0, **skw))
                conds[("validator parameters", "explicit None for the long name still wins")] = len(seen) == n3 + 1 and seen[-1][3] is None
                conds[("same regions whatever the threshold spelling", "long=None")] = regions_equal(base, r4)
                del seen[n3:]
                conds[("validator parameters", "long wins")] = len(seen) == 3 and seen[0][3] == 0 and bool(seen[0][1] == sw) and seen[0][2] == ch
                if len(seen) == 3:
                    conds[("validator parameters", "threshold long wins")] = SymRat.of(seen[0][0]).eqz(eth)
                    conds[("validator parameters", "short alone honoured")] = z3.And(SymRat.of(seen[1][0]).eqz(eth), z3.BoolVal(seen[1][3] == "mix"))
                    conds[("validator parameters", "defaults")] = seen[2][0] == 50 and seen[2][3] is None
                for k_, r in (("eth-long", r1), ("eth-short", r2), ("eth-default", r3)):
                    conds[("same regions whatever the threshold spelling", k_)] = regions_equal(base, r)
                # a value of zero means the same in both spellings (a short name tested for truthiness would fall back to a default)
                stage = "zero-valued aliases"

                def outcome(**kw_):
                    try:
                        return ("ok", list(core.split(data, sr=sr, sw=sw, ch=ch, validator=mkval(), **dict(skw, **kw_))))
                    except Exception as ex:
                        return ("raised " + type(ex).__name__, None)
                for long_, short_ in (("analysis_window", "aw"), ("max_read", "mr")):
                    other = {} if long_ == "analysis_window" else {"analysis_window": aw}
                    for zero in (0, 0.0):
                        o1, o2 = outcome(**dict(other, **{long_: zero})), outcome(**dict(other, **{short_: zero}))
                        conds[("zero means the same in both spellings", "%s=%r" % (short_, zero))] = (
                            o1[0] == o2[0] and (o1[1] is None or tobool(regions_equal(o1[1], o2[1]))))
                del seen[:]
                list(core.split(data, sr=sr, sw=sw, ch=ch, analysis_window=aw, energy_threshold=0, use_channel=0, **skw))
                list(core.split(data, sr=sr, sw=sw, ch=ch, analysis_window=aw, eth=0, uc=0, **skw))
                conds[("zero means the same in both spellings", "eth=0, uc=0")] = len(seen) == 2 and seen[0] == seen[1] and seen[0][0] == 0 and seen[0][3] == 0
            else:
                # max_read = t  ==  splitting the first round(t*rate) samples; t in quarter samples; both spellings
                stage = "max_read"
                mr, M, Mq = byt.sym_max_read(e, sr)
                syms["Mq"] = Mq
                cut = data[slice(0, SymInt(S(M * bps)))]
                want = list(core.split(cut, sr=sr, sw=sw, ch=ch, analysis_window=aw, validator=mkval(), **skw))
                got1 = list(core.split(data, sr=sr, sw=sw, ch=ch, analysis_window=aw, validator=mkval(), max_read=mr, **skw))
                got2 = list(core.split(data, sr=sr, sw=sw, ch=ch, analysis_window=aw, validator=mkval(), mr=mr, **skw))
                got3 = list(core.split(data, sr=sr, sw=sw, ch=ch, analysis_window=aw, validator=mkval(), max_read=mr, mr=SymRat(Mq + 8, 4 * sr), **skw))
                got4 = list(core.split("in.wav", analysis_window=aw, validator=mkval(), max_read=mr, large_file=True, **skw))
                got5 = list(core.split(core.AudioRegion(data, sr, sw, ch), analysis_window=aw, validator=mkval(), max_read=mr, **skw))
                got7 = list(core.split(iom.BufferAudioSource(data, sr, sw, ch), analysis_window=aw, validator=mkval(), max_read=mr, **skw))
                for k_, r in (("max_read", got1), ("mr", got2), ("both, long wins", got3), ("lazy wav", got4), ("region", got5), ("source", got7)):
                    conds[("max_read=t equals splitting the first round(t*rate) samples", k_)] = regions_equal(want, r)
        except Exception as ex:
            m = e.model()
            return {"status": "cex", "failing": ["%s: raised %s: %s" % (stage, type(ex).__name__, str(ex)[:80])],
                    "cex": mk(m, syms, meta, K) if m is not None else None}
        finally:
            core.AudioEnergyValidator = orig_validator_cls
        r = tok.discharge(e, conds, lambda m: mk(m, syms, meta, K))
        r["regions"] = len(base)
        return r
    return path


def mk(m, syms, meta, K):
    c = dict(meta)
    for k, t in syms.items():
        c[k] = byt.iv(m, t)
    c["valid"] = [byt.bv(m, z3.Bool("v%d" % k)) for k in range(K + 1)]
    c["eth8"] = byt.iv(m, I("eth"))
    return c


# ------------------------------------------------------------------ replay
def replay_fn(c):
    ak = loader.real_auditok()
    import wave as _wave
    import auditok.core as rcore
    from auditok import io as rio
    sw, ch, sr, B, n = c["sw"], c["ch"], c["sr"], c["B"], c["n"]
    bps = sw * ch
    Bq = c.get("Bq", 4 * B)
    if int((Bq / (4 * sr)) * sr) != B:
        return []
    data = byt.concrete_bytes(n * bps)
    tmp = tempfile.mkdtemp(prefix="sxv-c09-")
    orig = rcore._duration_to_nb_windows
    origv = rcore.AudioEnergyValidator
    old_stdin = sys.stdin
    rcore._duration_to_nb_windows = lambda d, *a, **k: {1: c["min_length"], 2: c["max_length"], 3: c["mcs"]}[d]
    skw = dict(min_dur=1, max_dur=2, max_silence=3, drop_trailing_silence=bool(c["mode"] & 4), strict_min_dur=bool(c["mode"] & 2))
    aw = Bq / (4 * sr)

    def val():
        calls = []

        def v(frame):
            calls.append(1)
            k = len(calls) - 1
            if k > 500:
                raise RuntimeError("input does not end")
            return c["valid"][k] if k < len(c["valid"]) else False
        return v
    seen = []

    class RecValidator(ak.util.DataValidator if hasattr(ak, "util") else object):
        def __init__(self, energy_threshold, sample_width, channels, use_channel=None):
            seen.append((energy_threshold, sample_width, channels, use_channel))
            self.v = val()

        def is_valid(self, d):
            return self.v(d)

    def sig(regs):
        return [(round(r.start * sr), round(r.end * sr), r.data) for r in regs]
    desc = "%d samples (sw=%d ch=%d sr=%d), window %d, counts (%d,%d,%d), mode %d, decisions %s" % (
        n, sw, ch, sr, B, c["min_length"], c["max_length"], c["mcs"], c["mode"], tok.stream_str(c["valid"]))
    try:
        rcore.AudioEnergyValidator = RecValidator
        raw = os.path.join(tmp, "in.raw")
        open(raw, "wb").write(data)
        for nm in ("in.wav", "in.dat"):
            with _wave.open(os.path.join(tmp, nm), "wb") as w:
                w.setframerate(sr)
                w.setsampwidth(sw)
                w.setnchannels(ch)
                w.writeframes(data)
        wav, dat = os.path.join(tmp, "in.wav"), os.path.join(tmp, "in.dat")
        base = sig(ak.split(data, sampling_rate=sr, sample_width=sw, channels=ch, analysis_window=aw, validator=val(), **skw))
        runs = {}
        if c["group"] == "containers":
            runs["AudioRegion"] = lambda: ak.split(ak.AudioRegion(data, sr, sw, ch), analysis_window=aw, validator=val(), **skw)
            runs["AudioRegion.split"] = lambda: ak.AudioRegion(data, sr, sw, ch).split(analysis_window=aw, validator=val(), **skw)
            runs["AudioRegion that has a start time"] = lambda: ak.split(ak.AudioRegion(data, sr, sw, ch, start=2.5), analysis_window=aw, validator=val(), **skw)
            runs["AudioSource"] = lambda: ak.split(rio.BufferAudioSource(data, sr, sw, ch), analysis_window=aw, validator=val(), **skw)
            runs["AudioReader"] = lambda: ak.split(ak.AudioReader(data, block_dur=aw, sr=sr, sw=sw, ch=ch), validator=val(), **skw)
            for nm_, kw_ in (("IN.WAV", {}), ("IN.Raw", dict(sr=sr, sw=sw, ch=ch, large_file=True))):
                shutil.copy(wav if nm_ == "IN.WAV" else raw, os.path.join(tmp, nm_))
                runs["file named %s" % nm_] = lambda nm_=nm_, kw_=kw_: ak.split(os.path.join(tmp, nm_), analysis_window=aw, validator=val(), **dict(skw, **kw_))
            for lazy in (False, True):
                runs["raw file%s" % (" lazy" if lazy else "")] = lambda lazy=lazy: ak.split(raw, sr=sr, sw=sw, ch=ch, analysis_window=aw, validator=val(), large_file=lazy, **skw)
                runs["wav file%s" % (" lazy" if lazy else "")] = lambda lazy=lazy: ak.split(wav, analysis_window=aw, validator=val(), large_file=lazy, **skw)

            def stdin_run():
                class _S:
                    buffer = _io.BytesIO(data)
                sys.stdin = _S()
                return list(ak.split("-", sr=sr, sw=sw, ch=ch, analysis_window=aw, validator=val(), **skw))
            runs["stdin"] = stdin_run
        elif c["group"] == "aliases":
            runs["short names only"] = lambda: ak.split(data, sr=sr, sw=sw, ch=ch, aw=aw, val=val(), **skw)
            runs["sampling_rate and sr"] = lambda: ak.split(data, sampling_rate=sr, sr=sr + 1, sample_width=sw, channels=ch, analysis_window=aw, validator=val(), **skw)
            runs["sample_width and sw"] = lambda: ak.split(data, sampling_rate=sr, sample_width=sw, sw=(4 if sw != 4 else 2), channels=ch, analysis_window=aw, validator=val(), **skw)
            runs["channels and ch"] = lambda: ak.split(data, sampling_rate=sr, sample_width=sw, channels=ch, ch=ch + 1, analysis_window=aw, validator=val(), **skw)
            runs["sr written before sampling_rate"] = lambda: ak.split(data, sr=sr + 1, sw=sw, ch=ch, sampling_rate=sr, analysis_window=aw, validator=val(), **skw)
            runs["sw written before sample_width"] = lambda: ak.split(data, sw=(4 if sw != 4 else 2), sr=sr, ch=ch, sample_width=sw, analysis_window=aw, validator=val(), **skw)
            runs["ch written before channels"] = lambda: ak.split(data, ch=ch + 1, sr=sr, sw=sw, channels=ch, analysis_window=aw, validator=val(), **skw)
            runs["analysis_window and aw"] = lambda: ak.split(data, sr=sr, sw=sw, ch=ch, analysis_window=aw, aw=(Bq + 4) / (4 * sr), validator=val(), **skw)
            runs["validator and val"] = lambda: ak.split(data, sr=sr, sw=sw, ch=ch, analysis_window=aw, validator=val(), val=lambda f: False, **skw)
            runs["audio_format and fmt"] = lambda: ak.split(dat, analysis_window=aw, validator=val(), audio_format="wav", fmt="raw", **skw)
            runs["fmt only"] = lambda: ak.split(dat, analysis_window=aw, validator=val(), fmt="wav", **skw)
            eth = c["eth8"] / 8
            runs["energy_threshold/eth, use_channel/uc"] = lambda: ak.split(data, sr=sr, sw=sw, ch=ch, analysis_window=aw, energy_threshold=eth, eth=eth + 1, use_channel=0, uc="mix", **skw)
            runs["eth, uc only"] = lambda: ak.split(data, sr=sr, sw=sw, ch=ch, analysis_window=aw, eth=eth, uc="mix", **skw)
            runs["max_read=None and mr"] = lambda: ak.split(data, sr=sr, sw=sw, ch=ch, analysis_window=aw, validator=val(), max_read=None, mr=B / (2 * sr), **skw)
            for long_, short_ in (("analysis_window", "aw"), ("max_read", "mr")):
                for zero in (0, 0.0):
                    def zero_run(long_=long_, short_=short_, zero=zero):
                        outs = []
                        for nm_ in (long_, short_):
                            kw_ = dict(skw, **{nm_: zero})
                            if long_ != "analysis_window":
                                kw_["analysis_window"] = aw
                            try:
                                outs.append(("ok", sig(ak.split(data, sr=sr, sw=sw, ch=ch, validator=val(), **kw_))))
                            except Exception as ex:
                                outs.append(("raised " + type(ex).__name__, None))
                        return base if outs[0] == outs[1] else [("%s=%r -> %s, %s=%r -> %s" % (long_, zero, outs[0][0], short_, zero, outs[1][0]), 0, b"")]
                    runs["%s=%r and %s=%r" % (long_, zero, short_, zero)] = zero_run

            def zero_eth():
                del seen[:]
                list(ak.split(data, sr=sr, sw=sw, ch=ch, analysis_window=aw, energy_threshold=0, use_channel=0, **skw))
                list(ak.split(data, sr=sr, sw=sw, ch=ch, analysis_window=aw, eth=0, uc=0, **skw))
                ok = len(seen) == 2 and seen[0] == seen[1] and seen[0][0] == 0 and seen[0][3] == 0
                r = base if ok else [("validators built with %s" % (seen,), 0, b"")]
                del seen[:]
                return r
            runs["energy_threshold=0, use_channel=0 and eth=0, uc=0"] = zero_eth
            runs["validator=None, use_channel=None and val, uc"] = lambda: ak.split(data, sr=sr, sw=sw, ch=ch, analysis_window=aw, validator=None, val=lambda f: False, use_channel=None, uc=0, **skw)
        else:
            mrc = byt.max_read_concrete(c["Mq"], sr)
            if mrc is None:
                return []
            mr, M = mrc
            base = sig(ak.split(data[:M * bps], sr=sr, sw=sw, ch=ch, analysis_window=aw, validator=val(), **skw))
            runs["max_read"] = lambda: ak.split(data, sr=sr, sw=sw, ch=ch, analysis_window=aw, validator=val(), max_read=mr, **skw)
            runs["mr"] = lambda: ak.split(data, sr=sr, sw=sw, ch=ch, analysis_window=aw, validator=val(), mr=mr, **skw)
            runs["max_read and mr"] = lambda: ak.split(data, sr=sr, sw=sw, ch=ch, analysis_window=aw, validator=val(), max_read=mr, mr=mr + 2 / sr, **skw)
            runs["max_read on an AudioRegion"] = lambda: ak.split(ak.AudioRegion(data, sr, sw, ch), analysis_window=aw, validator=val(), max_read=mr, **skw)
            runs["max_read on an AudioSource"] = lambda: ak.split(rio.BufferAudioSource(data, sr, sw, ch), analysis_window=aw, validator=val(), max_read=mr, **skw)
            runs["max_read on a lazy wav file"] = lambda: ak.split(wav, analysis_window=aw, validator=val(), max_read=mr, large_file=True, **skw)
            desc += ", max_read=%r (%d samples)" % (mr, M)
        if c["group"] == "containers":
            def rewritten():
                data2 = byt.concrete_bytes(n * bps, tag=7)
                with _wave.open(wav, "wb") as w:
                    w.setframerate(sr)
                    w.setsampwidth(sw)
                    w.setnchannels(ch)
                    w.writeframes(data2)
                want2 = sig(ak.split(data2, sr=sr, sw=sw, ch=ch, analysis_window=aw, validator=val(), **skw))
                got2 = sig(ak.split(wav, analysis_window=aw, validator=val(), **skw))
                # report in terms of the reference of the first audio so that the common comparison below flags a difference
                return base if got2 == want2 else [("stale", 0, b"")]
            runs["wav file rewritten with other audio of the same size (eager)"] = rewritten
        for name, fn in runs.items():
            del seen[:]
            try:
                got = fn()
                got = got if isinstance(got, list) and (not got or isinstance(got[0], tuple)) else sig(got)
            except Exception as ex:
                return [("C09: split through '%s' raises %s" % (name, type(ex).__name__), desc + ": %s" % ex)]
            if got != base:
                return [("C09: split through '%s' gives different regions" % name,
                         desc + ": %s -> %s, reference -> %s" % (name, [(a, b, len(d)) for a, b, d in got], [(a, b, len(d)) for a, b, d in base]))]
            if name.startswith("energy_threshold/eth") and (len(seen) != 1 or seen[0][0] != c["eth8"] / 8 or seen[0][3] != 0):
                return [("C09: long parameter name does not win over its alias", desc + ": validator built with %s" % (seen,))]
            if name.startswith("validator=None") and (len(seen) != 1 or seen[0][3] is not None):
                return [("C09: an explicit None for the long name does not win over its alias", desc + ": validator built with %s" % (seen,))]
            if name == "eth, uc only" and (len(seen) != 1 or seen[0][0] != c["eth8"] / 8 or seen[0][3] != "mix"):
                return [("C09: short alias alone is not honoured", desc + ": validator built with %s" % (seen,))]
        return []
    except Exception as ex:
        return [("C09: replay raises %s" % type(ex).__name__, desc + ": %s" % ex)]
    finally:
        rcore._duration_to_nb_windows = orig
        rcore.AudioEnergyValidator = origv
        sys.stdin = old_stdin
        shutil.rmtree(tmp, ignore_errors=True)


def replay(c):
    f = replay_fn(c)
    return (bool(f), f[0][1] if f else "property holds on the real code for this input")


def run(rep):
    tok.VALIDATE[0] = replay_fn
    b = BOUNDS[rep.tier]
    L = loader.load()
    rep.hashes = L.hashes
    tier = rep.tier
    K = b["K"]
    rep.bounds = {"windows": "inputs of <= %d analysis windows; sample count, window size, window counts unbounded integers; max_read in quarter samples" % K,
                  "containers": CONTAINERS, "aliases": ALIASES,
                  "formats": "%s, 2 of 4 modes per format" % ([(1, 1), (2, 2)] if tier == "quick" else [(1, 1), (2, 2), (4, 3)],)}
    rep.explanation = ("One path = one symbolic audio + decisions; the real split() is run through every container kind / alias spelling and "
                       "z3 proves each region list equal to the run on raw bytes (bytes by segment normalisation, times as rationals).")
    rep.assumptions = ["I/O stubs (files, wave, stdin) holding the same byte sequence", "stub validator / recording AudioEnergyValidator stand-in (C07 owns the energy rule)",
                       "stub for _duration_to_nb_windows (C06)"]
    rep.outside = ["pydub-decoded formats, microphone", "inputs longer than %d windows" % K]
    fm = [(1, 1), (2, 2)] if tier == "quick" else [(1, 1), (2, 2), (4, 3)]
    for i, (sw, ch) in enumerate(fm):
        for mode in ((0,) if i == 0 else (6,)) if tier == "quick" else ((0, 6) if i == 0 else (2, 4)[i - 1:i]):
            for group in ("containers", "aliases", "max_read"):
                hn = "%s[sw=%d,ch=%d,K=%d,mode=%d]" % (group, sw, ch, K, mode)
                ex = explore(harness(L, sw, ch, 10 if i % 2 == 0 else 16000, K, mode, group))
                rep.add_exploration(hn, ex)
                tok.handle_cex(rep, hn, ex, replay_fn, ideal=True)
