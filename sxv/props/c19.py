"""C19 - a recorder returns exactly what was read, and replays it identically.
B over histories: every sequence of K operations out of {read, rewind, .data} on a recording reader;
source length, block, hop, max_read (samples) unbounded symbolic integers."""
import z3

from ..engine import explore, S
from ..values import SymBytes, SymInt, SymRat, slice_goal, toint, tobool, lift
from .. import loader
from . import byt, tok
from .c10 import expected_block

I = z3.Int
BOUNDS = {"quick": dict(K=5), "thorough": dict(K=7)}
OPS = ["read", "rewind", "data"]


AUDIT = ("rewind", "data", "read", "read")


def hist_harness(L, sw, ch, sr, K, overlap, limit, use_recorder_cls, advanced=False):
    bps = sw * ch
    util = L.modules["util"]

    def path(e):
        D, data = byt.sym_audio(e, "D", bps)
        n = D.nsamples
        B, H, M = I("B"), I("H"), I("M")
        e.assume(B >= 1)
        syms = dict(n=n, B=B)
        kw = dict(block_dur=SymRat(B, sr), sr=sr, sw=sw, ch=ch)
        if overlap:
            e.assume(z3.And(H >= 1, H < B))
            kw["hop_dur"] = SymRat(H, sr)
            syms["H"] = H
        else:
            H = B
        n_vis = n
        if limit:
            mr, M, Mq = byt.sym_max_read(e, sr)
            kw["max_read"] = mr
            syms["Mq"] = Mq
            n_vis = z3.If(M < n, M, n)
        meta = dict(sw=sw, ch=ch, sr=sr, overlap=overlap, limit=limit, cls=use_recorder_cls, advanced=advanced)
        ops = []
        off = z3.IntVal(0)
        try:
            if advanced:
                # the recorder wraps a source somebody has already read from: what it records starts where it started reading
                j0 = I("j0")
                e.assume(z3.And(j0 >= 1, j0 <= n))
                syms["j0"] = j0
                inp = L.modules["io"].BufferAudioSource(data, sr, sw, ch)
                inp.open()
                inp.read(SymInt(j0))
                off = j0
                n_vis = z3.If(n_vis > n - j0, n - j0, n_vis) if limit else n - j0
                kw2 = {k: v for k, v in kw.items() if k not in ("sr", "sw", "ch")}
                r = util.Recorder(inp, **kw2) if use_recorder_cls else util.AudioReader(inp, record=True, **kw2)
            else:
                r = util.Recorder(data, **kw) if use_recorder_cls else util.AudioReader(data, record=True, **kw)
                r.open()
        except Exception as ex:
            return now(e, "constructor raised %s" % type(ex).__name__, syms, meta, ops)
        conds = {}
        phase, idx, c = "rec", 0, None
        for step in range(K + len(AUDIT)):
            # K freely chosen operations, then a fixed audit: whatever the history, a rewind must give back exactly what was
            # recorded and replay it from the start
            op = OPS[e.choose(3)] if step < K else AUDIT[step - K]
            ops.append(op)
            tag = "%d:%s" % (step, op)
            out = exc = None
            try:
                if op == "read":
                    out = r.read()
                elif op == "rewind":
                    r.rewind()
                else:
                    out = r.data
            except Exception as ex:
                exc = ex
            vis = n_vis if phase == "rec" else c
            if op == "read":
                if exc is not None:
                    conds[tag] = False
                    break
                exists, lo, hi = expected_block(idx, vis, B, H)
                conds[tag] = z3.Not(exists) if out is None else z3.And(exists, slice_goal(out, D, (off + lo) * bps, (off + hi) * bps))
                idx += 1
            elif op == "rewind":
                if exc is not None:
                    conds[tag] = False
                    break
                if phase == "rec":
                    want = z3.IntVal(0) if idx == 0 else B + (idx - 1) * H
                    c = S(z3.If(want < n_vis, want, n_vis))
                    phase = "rep"
                idx = 0
            else:
                if phase == "rec":
                    conds[tag] = exc is not None        # must raise, not return partial data
                elif exc is not None:
                    conds[tag] = False
                    break
                else:
                    conds[tag] = slice_goal(out, D, off * bps, (off + c) * bps)
        return tok.discharge(e, conds, lambda m: mk(m, syms, meta, ops))
    return path


def plain_harness(L, variant="plain"):
    util = L.modules["util"]

    def path(e):
        D, data = byt.sym_audio(e, "D", 2)
        e.assume(I("B") >= 1)
        kw = {}
        if "limit" in variant:
            kw["max_read"] = byt.sym_max_read(e, 10)[0]
        if "overlap" in variant:
            e.assume(z3.And(I("H") >= 1, I("H") < I("B")))
            kw["hop_dur"] = SymRat(I("H"), 10)
        r = util.AudioReader(data, block_dur=SymRat(I("B"), 10), sr=10, sw=2, ch=1, **kw)
        bad = []
        for name in ("data", "rewind"):
            try:
                getattr(r, name)
                bad.append(name)
            except AttributeError:
                pass
            except Exception as ex:
                bad.append("%s raised %s" % (name, type(ex).__name__))
        if not bad:
            return {"status": "ok"}
        return {"status": "cex", "failing": bad, "cex": {"kind": "plain", "attrs": bad, "variant": variant}}
    return path


def now(e, why, syms, meta, ops):
    m = e.model()
    if m is None:
        return {"status": "unknown", "why": why}
    return {"status": "cex", "failing": [why], "cex": mk(m, syms, meta, ops)}


def long_harness(L, R, limit):
    """a long recording: R one-sample blocks read before the first rewind (every block exists: n >= R), then rewind; `data`
    must be the first R samples and the replay must start with the first block again"""
    util = L.modules["util"]

    def path(e):
        D, data = byt.sym_audio(e, "D", 1)
        n = D.nsamples
        e.assume(n >= R + 2)
        meta = dict(kind="long", R=R, limit=limit)
        kw = dict(max_read=(R + 1) / 10) if limit else {}
        conds = {}
        try:
            r = util.AudioReader(data, block_dur=0.1, sr=10, sw=1, ch=1, record=True, **kw)
            r.open()
            bad = 0
            for i in range(R):
                out = r.read()
                if out is None:
                    bad += 1
                elif i % 97 == 0 or i >= R - 3:
                    conds[("block", i)] = slice_goal(out, D, i, i + 1)
            conds["every read returns a block"] = bad == 0
            r.rewind()
            dl = lift(r.data).length()
            # lengths first (linear arithmetic only): a recording that lost or duplicated blocks is found without sequence reasoning
            r1 = tok.discharge(e, {"data has as many bytes as were read": dl == R}, lambda m: mk(m, {"n": n}, meta, []))
            if r1["status"] != "ok":
                return r1
            conds["data is what was read"] = slice_goal(r.data, D, 0, R)
            first = r.read()
            conds["replay starts over"] = first is not None and slice_goal(first, D, 0, 1)
        except Exception as ex:
            return now(e, "raised %s: %s" % (type(ex).__name__, str(ex)[:60]), {"n": n}, meta, [])
        return tok.discharge(e, conds, lambda m: mk(m, {"n": n}, meta, []))
    return path


def replay_long(c):
    ak = loader.real_auditok()
    R, n = c["R"], max(c["n"], c["R"] + 2)
    data = byt.concrete_bytes(n)
    kw = dict(max_read=(R + 1) / 10) if c.get("limit") else {}
    r = ak.AudioReader(data, block_dur=0.1, sr=10, sw=1, ch=1, record=True, **kw)
    r.open()
    blocks = [r.read() for _ in range(R)]
    desc = "recording reader over %d one-sample blocks%s, %d reads, rewind" % (n, " (max_read %d samples)" % (R + 1) if c.get("limit") else "", R)
    if any(b is None for b in blocks) or b"".join(blocks) != data[:R]:
        return [("C19: a long first pass does not return the source's blocks", desc)]
    r.rewind()
    if r.data != data[:R]:
        return [("C19: data differs from what was read", desc + ": data holds %d bytes, %d were read" % (len(r.data), R))]
    if r.read() != data[:1]:
        return [("C19: replay does not start over", desc)]
    return []


def mk(m, syms, meta, ops):
    c = dict(meta)
    c["ops"] = list(ops)
    for k, t in syms.items():
        c[k] = byt.iv(m, t)
    return c


def replay_fn(c):
    if c.get("kind") == "long":
        return replay_long(c)
    ak = loader.real_auditok()
    if c.get("kind") == "plain":
        kw = {}
        if "limit" in c.get("variant", ""):
            kw["max_read"] = 0.2
        if "overlap" in c.get("variant", ""):
            kw["hop_dur"] = 0.1
        r = ak.AudioReader(b"\0\0" * 4, block_dur=0.2 if kw.get("hop_dur") else 0.1, sr=10, sw=2, ch=1, **kw)
        bad = []
        for name in ("data", "rewind"):
            try:
                getattr(r, name)
                bad.append(name)
            except AttributeError:
                pass
        return [("C19: non-recording reader exposes " + "/".join(bad), "AudioReader without record exposes %s" % bad)] if bad else []
    sw, ch, sr = c["sw"], c["ch"], c["sr"]
    bps = sw * ch
    n, B = c["n"], c["B"]
    H = c.get("H", B)
    data = byt.concrete_bytes(n * bps)
    kw = dict(block_dur=B / sr, sr=sr, sw=sw, ch=ch)
    if c["overlap"]:
        kw["hop_dur"] = H / sr
    n_vis = n
    if c["limit"]:
        mrc = byt.max_read_concrete(c["Mq"], sr)
        if mrc is None:
            return []
        kw["max_read"] = mrc[0]
        n_vis = min(n, mrc[1])
    if int((B / sr) * sr) != B or (c["overlap"] and int((H / sr) * sr) != H):
        return []
    desc = "%s(%d samples sw=%d ch=%d sr=%d, block=%d hop=%s max_read=%s) history %s" % (
        "Recorder" if c["cls"] else "AudioReader[record]", n, sw, ch, sr, B, H if c["overlap"] else None, ("%s/4 samples" % c.get("Mq")) if c["limit"] else None, c["ops"])
    off = 0
    try:
        if c.get("advanced"):
            from auditok import io as rio
            inp = rio.BufferAudioSource(data, sr, sw, ch)
            inp.open()
            inp.read(c["j0"])
            off = c["j0"]
            n_vis = min(n_vis, n - off) if c["limit"] else n - off
            kw2 = {k: v for k, v in kw.items() if k not in ("sr", "sw", "ch")}
            r = ak.Recorder(inp, **kw2) if c["cls"] else ak.AudioReader(inp, record=True, **kw2)
            desc += " over a source already advanced by %d samples" % off
        else:
            r = ak.Recorder(data, **kw) if c["cls"] else ak.AudioReader(data, record=True, **kw)
            r.open()
    except Exception as ex:
        return [("C19: constructor raises %s" % type(ex).__name__, desc + ": %s" % ex)]
    phase, idx, cns = "rec", 0, None
    for step, op in enumerate(c["ops"]):
        out = exc = None
        try:
            if op == "read":
                out = r.read()
            elif op == "rewind":
                r.rewind()
            else:
                out = r.data
        except Exception as ex:
            exc = ex
        vis = n_vis if phase == "rec" else cns
        if op == "read":
            if exc is not None:
                return [("C19: read raises %s" % type(exc).__name__, desc + ": step %d read raises %s" % (step, exc))]
            exists = vis > 0 if idx == 0 else B + (idx - 1) * H < vis
            want = data[(off + idx * H) * bps:(off + min(idx * H + B, vis)) * bps] if exists else None
            if out != want:
                return [("C19: %s block differs" % ("replayed" if phase == "rep" else "recorded-phase"),
                         desc + ": step %d read returns %s, expected %s" % (step, None if out is None else len(out), None if want is None else len(want)))]
            idx += 1
        elif op == "rewind":
            if exc is not None:
                return [("C19: rewind raises %s" % type(exc).__name__, desc + ": step %d: %s" % (step, exc))]
            if phase == "rec":
                cns = 0 if idx == 0 else min(B + (idx - 1) * H, n_vis)
                phase = "rep"
            idx = 0
        else:
            if phase == "rec":
                if exc is None:
                    return [("C19: data before the first rewind does not raise", desc + ": step %d returns %d bytes" % (step, len(out)))]
            elif exc is not None:
                return [("C19: data raises %s" % type(exc).__name__, desc + ": step %d: %s" % (step, exc))]
            elif out != data[off * bps:(off + cns) * bps]:
                return [("C19: recorded data differs from what was consumed", desc + ": step %d data has %d bytes, consumed %d" % (step, len(out), cns * bps))]
    return []


def replay(c):
    f = replay_fn(c)
    return (bool(f), f[0][1] if f else "property holds on the real code for this input")


def run(rep):
    tok.VALIDATE[0] = replay_fn
    b = BOUNDS[rep.tier]
    L = loader.load(("exceptions", "io", "signal", "util"))
    rep.hashes = L.hashes
    K = b["K"]
    tier = rep.tier
    rep.bounds = {"histories": "every sequence of %d operations out of read / rewind / .data on a fresh recording reader, each followed by the audit rewind, .data, read, read" % K,
                  "symbolic": "source length n, block B, hop H < B, max_read = Mq/4 samples with Mq an unbounded integer (quarter-sample resolution, so rounding ties and fractions are covered)",
                  "enumerated": "overlap x limiter on/off; AudioReader(record=True) and Recorder; formats %s" % byt.fmts(tier)[:2]}
    rep.explanation = ("Real recording AudioReader driven through every operation history of length K; z3 proves per path that "
                       "data == D[:consumed], that replayed blocks equal the C10 framing over data, and that data before the first rewind raises.")
    rep.assumptions = ["block_dur/hop_dur/max_read as exact rationals k/rate", "H >= 1"]
    rep.outside = ["histories longer than %d operations" % K]
    for (sw, ch) in byt.fmts(tier)[:2 if tier == "thorough" else 1]:
        for overlap in (False, True):
            for limit in (False, True):
                for cls in ((False, True) if (tier == "thorough" or not limit) else (False,)):
                    hn = "history[sw=%d,ch=%d,K=%d,%s%s%s]" % (sw, ch, K, "overlap," if overlap else "", "limit," if limit else "", "Recorder" if cls else "record=True")
                    ex = explore(hist_harness(L, sw, ch, 10, K, overlap, limit, cls))
                    rep.add_exploration(hn, ex)
                    tok.handle_cex(rep, hn, ex, replay_fn, ideal=True)
    # multichannel / wider samples: the replayed blocks must have the frame size of the source
    for (sw, ch) in ((2, 2), (1, 3)) if tier == "quick" else ((2, 2), (1, 3), (4, 2)):
        for overlap in (False, True):
            hn = "history[sw=%d,ch=%d,K=%d,%srecord=True]" % (sw, ch, min(K, 4), "overlap," if overlap else "")
            ex = explore(hist_harness(L, sw, ch, 10, min(K, 4), overlap, False, False))
            rep.add_exploration(hn, ex)
            tok.handle_cex(rep, hn, ex, replay_fn, ideal=True)
    for overlap in (False, True):
        hn = "history[advanced source,K=%d,%s]" % (min(K, 4), "overlap" if overlap else "")
        ex = explore(hist_harness(L, 2, 1, 10, min(K, 4), overlap, False, False, advanced=True))
        rep.add_exploration(hn, ex)
        tok.handle_cex(rep, hn, ex, replay_fn, ideal=True)
    rep.bounds["long recordings"] = "1100 (thorough 5000) one-sample blocks read before the first rewind, source length any n beyond that, with and without max_read"
    for limit in (False, True):
        R = 1100 if tier == "quick" else 5000
        hn = "long recording[%d reads%s]" % (R, ",limit" if limit else "")
        ex = explore(long_harness(L, R, limit), workers=1, max_decisions=20000, path_wall_s=300)
        rep.add_exploration(hn, ex)
        tok.handle_cex(rep, hn, ex, replay_fn, ideal=True)
    for variant in ("plain", "limit", "overlap", "limit+overlap"):
        ex = explore(plain_harness(L, variant), workers=1)
        rep.add_exploration("non-recording reader[%s]" % variant, ex)
        tok.handle_cex(rep, "non-recording reader", ex, replay_fn)
