"""C14 - stopping at any moment yields a consistent prefix and a clean shutdown.
S-shape: the main thread issues stop_all() while the workers run; because the scheduler may delay or advance the main
thread at every scheduling point, the stop lands before the first read, between any two reads, or after the last."""
import z3

from ..engine import explore
from ..values import SymRat
from ..stubs import sched as S, iostub
from . import thr, tok
from .c12 import sig, compact
from .c13 import file_bytes

I = z3.Int
BOUNDS = {"quick": [dict(what="observer", K=3, pre=2, to=1), dict(what="saver", K=3, pre=1, to=1), dict(what="saver-only", K=3, pre=2, to=1)],
          "thorough": [dict(what="observer", K=5, pre=2, to=1), dict(what="observer", K=4, pre=3, to=1), dict(what="saver", K=3, pre=1, to=1),
                       dict(what="saver", K=2, pre=2, to=1), dict(what="saver-only", K=4, pre=2, to=1), dict(what="observer2", K=3, pre=2, to=1)]}


def run_once(mods, s, what, K, data, val, cache):
    W, core, util = mods["workers"], mods["core"], mods["util"]
    Obs = thr.make_observer_class(W)
    reader = util.AudioReader(data, block_dur=0.1, sr=thr.SR, sw=thr.SW, ch=thr.CH)
    seen = []
    orig_read = reader.read

    def counting_read():
        b = orig_read()
        if b is not None:
            seen.append(bytes(b))
        return b
    reader.read = counting_read
    obs = [Obs() for _ in range(2 if what == "observer2" else 0 if what == "saver-only" else 1)]
    src, saver = reader, None
    if what.startswith("saver"):
        saver = W.StreamSaverWorker(reader, filename="stream.wav", export_format=None, cache_size_sec=cache)
        src = saver
        saver.start()
    tw = W.TokenizerWorker(src, obs, validator=val, **thr.SPLIT_KW)
    tw.start_all()
    tw.stop_all()
    if saver is not None:
        saver.join()            # what cmdline.main does after stop_all()
        thr.neutralise([saver])
    return dict(read=seen, got=[[(i, sig([r])[0]) for i, r in o.got] for o in obs], detections=[(d.id, d.start, d.end) for d in tw.detections],
                finished=all(t.finished for t in s.threads))


def judge(what, obs, want, fs_bytes):
    fails = []
    if not obs["finished"]:
        fails.append("some worker thread did not terminate after stop_all()")
    for k, g in enumerate(obs["got"]):
        if [i for i, _ in g] != list(range(1, len(want) + 1)) or [x for _, x in g] != want:
            fails.append("after a stop with %d blocks read, observer %d processed %s but the prefix holds %s" % (
                len(obs["read"]), k, [(i, x[:2]) for i, x in g], [w[:2] for w in want]))
    if [(round(a * thr.SR), round(b * thr.SR)) for _, a, b in obs["detections"]] != [w[:2] for w in want]:
        fails.append("worker detections %s differ from the detections of the prefix %s" % (obs["detections"], [w[:2] for w in want]))
    if what.startswith("saver"):
        if fs_bytes is None:
            fails.append("stream file not written")
        else:
            if fs_bytes[0] != b"".join(obs["read"]):
                fails.append("saved stream holds %d bytes, the blocks read before the stop hold %d" % (len(fs_bytes[0]), sum(map(len, obs["read"]))))
            if fs_bytes[1] != (thr.SR, thr.SW, thr.CH) or not fs_bytes[2]:
                fails.append("saved stream is not a valid closed wav file (header %s, closed=%s)" % (fs_bytes[1], fs_bytes[2]))
    return fails


def harness(L, what, K, max_pre, max_to):
    mods = L.modules
    core = mods["core"]
    data = thr.tagged_audio(K)

    def path(e):
        s = S.Sched(e, max_timeouts=max_to, max_preempt=max_pre)
        fs = iostub.FS()
        iostub.install(L, fs)
        cb = I("cache_bytes")
        e.assume(cb >= 0)
        meta = dict(what=what, K=K, pre=max_pre, to=max_to)
        e.on_budget = lambda m: mk(m, meta, s, cb)
        obs = err = None
        try:
            obs = run_once(mods, s, what, K, data, thr.window_validator(data), SymRat(cb, thr.SR * thr.BPS))
        except (S.Outcome, S.ThreadCrashed) as ex:
            err = str(ex)
        finally:
            s.cleanup()
        if err:
            fails = [err]
        else:
            prefix = b"".join(obs["read"])
            want = sig(list(core.split(prefix, sr=thr.SR, sw=thr.SW, ch=thr.CH, analysis_window=0.1, validator=thr.window_validator(data), **thr.SPLIT_KW)))
            fails = judge(what, obs, want, file_bytes(fs, "stream.wav"))
        if not fails:
            out = {"status": "ok", "blocks_read_before_stop": len(obs["read"]), "schedule_len": len(s.log)}
            if __import__("zlib").crc32(bytes(e.trace)) % 61 == 0:
                mm = e.model()
                if mm is not None:
                    out["instance"] = {"windows": tok.stream_str(thr.bits_from_model(mm, K)), "schedule": compact([list(x) for x in s.log])}
            return out
        m = e.model()
        return {"status": "cex", "failing": fails[:2], "cex": mk(m, meta, s, cb)}
    return path


def mk(m, meta, s, cb):
    c = dict(meta)
    c["valid"] = thr.bits_from_model(m, meta["K"]) if m is not None else [False] * meta["K"]
    c["cache_bytes"] = m.eval(cb, model_completion=True).as_long() if m is not None else 0
    c["schedule"] = [list(x) for x in s.log]
    return c


def replay_fn(c):
    import os
    import shutil
    import tempfile
    import wave as _wave
    mods = thr.load_real()
    core = mods["core"]
    K = c["K"]
    data = thr.tagged_audio(K)
    tmp = tempfile.mkdtemp(prefix="sxv-c14-")
    cwd = os.getcwd()
    os.chdir(tmp)
    s = S.Sched(None, max_timeouts=c["to"] + 50, max_preempt=10 ** 6)
    s.script = [tuple(x) for x in c["schedule"]]
    obs = err = None
    try:
        try:
            obs = run_once(mods, s, c["what"], K, data, thr.concrete_validator(data, c["valid"]), c["cache_bytes"] / (thr.SR * thr.BPS))
        except (S.Outcome, S.ThreadCrashed) as ex:
            err = str(ex)
        finally:
            s.cleanup()
        fb = None
        if c["what"].startswith("saver") and os.path.exists("stream.wav"):
            try:
                with _wave.open("stream.wav", "rb") as w:
                    fb = (w.readframes(-1), (w.getframerate(), w.getsampwidth(), w.getnchannels()), True)
            except Exception:
                fb = (b"", (None, None, None), False)
        if err:
            fails = [err]
        else:
            prefix = b"".join(obs["read"])
            want = sig(list(core.split(prefix, sr=thr.SR, sw=thr.SW, ch=thr.CH, analysis_window=0.1, validator=thr.concrete_validator(data, c["valid"]), **thr.SPLIT_KW)))
            fails = judge(c["what"], obs, want, fb)
    finally:
        os.chdir(cwd)
        shutil.rmtree(tmp, ignore_errors=True)
    if not fails:
        return []
    kind = "deadlock or crash during shutdown" if err else "thread left running after stop" if "terminate" in fails[0] else \
        "saved stream inconsistent after stop" if "stream" in fails[0] else "detections after stop are not those of the prefix read"
    return [("C14: " + kind, "%s, windows %s, schedule %s: %s" % (c["what"], tok.stream_str(c["valid"]), compact(c["schedule"]), fails[0]))]


def replay(c):
    f = replay_fn(c)
    return (bool(f), f[0][1] if f else "property holds on the real code for this schedule")


def run(rep):
    tok.VALIDATE[0] = replay_fn
    L = thr.load()
    rep.hashes = L.hashes
    cfgs = BOUNDS[rep.tier]
    rep.bounds = {"configurations": cfgs,
                  "meaning": "main thread calls start_all() then stop_all(); its first queue operation can be scheduled at any point of the run (before the first read, between reads, after the last); pre-emption/time-out bounds as in C12; symbolic activity bits and cache threshold"}
    rep.explanation = ("Real TokenizerWorker.stop_all/stop/read/_stop_requested, Worker.run and StreamSaverWorker under the baton scheduler; per schedule the "
                       "observers' log must equal the detections of a plain split() on exactly the blocks the reader had returned, all threads must "
                       "have finished and the saved wav must be closed and hold those blocks.")
    rep.assumptions = ["as C12"]
    rep.outside = ["KeyboardInterrupt delivery inside cmdline.main's sleep loop (the stop_all() path it triggers is what is checked)", "more windows / pre-emptions than stated"]
    stops = set()
    for cf in cfgs:
        hn = "stop[%s,K=%d,pre=%d,to=%d]" % (cf["what"], cf["K"], cf["pre"], cf["to"])
        ex = explore(harness(L, cf["what"], cf["K"], cf["pre"], cf["to"]), max_decisions=3000, path_wall_s=30)
        rep.add_exploration(hn, ex, bounds=cf)
        tok.handle_cex(rep, hn, ex, replay_fn)
        stops |= {r.get("blocks_read_before_stop") for r in ex.results if r["status"] == "ok"}
        for k in range(cf["K"] + 1):
            rep.witness("stop lands after %d block(s)" % k, k in stops)
