"""C15 - the command line reports exactly what the API detects.
(1) time formatter: unbounded LIA over the real make_duration_formatter; (2) option wiring: the real make_kwargs ->
initialize_workers -> TokenizerWorker -> split() chain on a Namespace with symbolic numeric fields against a direct split()
call; (3) end to end: the real cmdline.main(argv) under the cooperative scheduler with a fair schedule."""
import argparse
import io as _io
import os
import shutil
import sys
import tempfile

import z3

from ..engine import explore, Unsupported
from ..values import SymInt, SymRat, SymBool, Placeholder, toint, tobool
from ..stubs import sched as S, iostub
from .. import loader
from . import byt, thr, tok

I = z3.Int
FMTS = ["%S", "%I", "%h:%m:%s.%i", "%i ms, %s s, %m min, %h h", "%m-%s", "at %h%%", "%h %q", "%H", "100%"]
DENS = {"quick": [1, 1000, 16000], "thorough": [1, 3, 1000, 1024, 16000, 44100]}


def parse_tokens(text):
    """split a formatted string into literal text and placeholder tokens"""
    out, i = [], 0
    while i < len(text):
        if text[i] == "⟦":
            j = text.index("⟧", i)
            out.append(Placeholder.registry[text[i:j + 1]])
            i = j + 1
        else:
            j = text.find("⟦", i)
            j = len(text) if j < 0 else j
            out.append(text[i:j])
            i = j
    return out


def expected_fields(fmt):
    """(literal | field name) sequence of a %h/%m/%s/%i template, or None if it has an unknown directive"""
    names = {"h": "hrs", "m": "mins", "s": "secs", "i": "millis"}
    out, i, lit = [], 0, ""
    while i < len(fmt):
        if fmt[i] == "%":
            if i + 1 < len(fmt) and fmt[i + 1] in names:
                if lit:
                    out.append(lit)
                    lit = ""
                out.append(("field", names[fmt[i + 1]]))
                i += 2
                continue
            return None
        lit += fmt[i]
        i += 1
    if lit:
        out.append(lit)
    return out


def formatter_harness(L, fmt, den):
    util = L.modules["util"]
    exc = L.modules["exceptions"]

    def path(e):
        Placeholder.registry.clear()
        p = I("p")
        e.assume(p >= 0)
        meta = dict(kind="formatter", fmt=fmt, den=den)
        want = "special" if fmt in ("%S", "%I") else expected_fields(fmt)
        try:
            f = util.make_duration_formatter(fmt)
            made = True
        except exc.TimeFormatError:
            made = False
        except Exception as ex:
            return now(e, "make_duration_formatter raised %s" % type(ex).__name__, p, meta)
        if want is None:
            if made:
                return now(e, "unknown directive accepted", p, meta)
            return {"status": "ok", "outcome": "TimeFormatError"}
        if not made:
            return now(e, "valid format rejected", p, meta)
        sec = SymRat(p, den)
        try:
            text = f(sec)
        except Exception as ex:
            return now(e, "formatter raised %s: %s" % (type(ex).__name__, str(ex)[:60]), p, meta)
        M = e.fresh("M")
        e.add(z3.And(M * den <= 1000 * p, 1000 * p < (M + 1) * den))
        toks = parse_tokens(text)
        conds = {}
        if fmt == "%S":
            conds["seconds with three decimals"] = len(toks) == 1 and isinstance(toks[0], Placeholder) and toks[0].spec == ".3f" \
                and isinstance(toks[0].value, SymRat) and True
            if conds["seconds with three decimals"]:
                conds["value is the argument"] = SymRat.of(toks[0].value).eqz(sec)
        elif fmt == "%I":
            ok = len(toks) == 1 and isinstance(toks[0], Placeholder) and toks[0].spec == "" and isinstance(toks[0].value, SymInt)
            conds["whole milliseconds"] = ok
            if ok:
                conds["value = trunc(seconds*1000)"] = toint(toks[0].value) == M
        else:
            shape_ok = len(toks) == len(want)
            vals = {}
            if shape_ok:
                for t, w in zip(toks, want):
                    if isinstance(w, tuple):
                        spec = "03d" if w[1] == "millis" else "02d"
                        if not (isinstance(t, Placeholder) and t.spec == spec and isinstance(t.value, (SymInt, int))):
                            shape_ok = False
                            break
                        vals[w[1]] = toint(t.value)
                    elif t != w:
                        shape_ok = False
                        break
            conds["fields in template order, zero-padded 02d/02d/02d/03d, literals kept"] = shape_ok
            if shape_ok:
                # the real formatter computes all four fields even when the template shows only some of them: recover the others
                h, mi, s_, ms = (vals.get(k) for k in ("hrs", "mins", "secs", "millis"))
                if mi is not None:
                    conds["0 <= minutes < 60"] = z3.And(mi >= 0, mi < 60)
                if s_ is not None:
                    conds["0 <= seconds < 60"] = z3.And(s_ >= 0, s_ < 60)
                if ms is not None:
                    conds["0 <= milliseconds < 1000"] = z3.And(ms >= 0, ms < 1000)
                if None not in (h, mi, s_, ms):
                    conds["fields recompose to the whole-millisecond value"] = 3600000 * h + 60000 * mi + 1000 * s_ + ms == M
                else:
                    hh, mm, ss, ii = (v if v is not None else e.fresh(n) for v, n in ((h, "h"), (mi, "m"), (s_, "s"), (ms, "i")))
                    conds["shown fields are the ones of the decomposition of the whole-millisecond value"] = z3.Exists(
                        [x for x, v in ((hh, h), (mm, mi), (ss, s_), (ii, ms)) if v is None],
                        z3.And(3600000 * hh + 60000 * mm + 1000 * ss + ii == M, hh >= 0, mm >= 0, mm < 60, ss >= 0, ss < 60, ii >= 0, ii < 1000))
        return tok.discharge(e, conds, lambda m: dict(meta, p=byt.iv(m, p)))
    return path


def now(e, why, p, meta):
    m = e.model()
    return {"status": "cex", "failing": [why], "cex": dict(meta, p=byt.iv(m, p) if m is not None else 0)}


# ----------------------------------------------------------------- wiring
def wiring_harness(L):
    """the CLI option chain must hand split() / the reader exactly what a direct call would get"""
    cu, W, core, util = L.modules["cmdline_util"], L.modules["workers"], L.modules["core"], L.modules["util"]

    def path(e):
        s = S.Sched(e, max_timeouts=0, max_preempt=0)
        fs = iostub.FS()
        data = byt.concrete_bytes(8)
        fs.files["in.raw"] = iostub.RawEntry(data)
        iostub.install(L, fs)
        den = 1024
        v = {k: I(k) for k in ("n", "m", "s", "a", "e", "M")}
        e.assume(z3.And(v["a"] * 10 >= den, v["M"] >= 0))
        flags = {k: bool(e.choose(2)) for k in ("d", "R")}
        lazy = bool(e.choose(2))
        use_mr = bool(e.choose(2))
        uc = [None, "mix", "1", "0"][e.choose(4)]
        ns = argparse.Namespace(
            input="in.raw", input_format="raw", max_read=SymRat(v["M"], den) if use_mr else None, analysis_window=SymRat(v["a"], den),
            sampling_rate=10, sample_width=2, channels=2, use_channel=uc, save_stream=None, save_detections_as=None,
            join_detections=None, output_format=None, large_file=lazy, frame_per_buffer=1024, input_device_index=None, plot=False,
            save_image=None, min_duration=SymRat(v["n"], den), max_duration=SymRat(v["m"], den), max_silence=SymRat(v["s"], den),
            drop_trailing_silence=flags["d"], strict_min_duration=flags["R"], energy_threshold=SymRat(v["e"], 8), echo=False,
            progress_bar=False, command=None, quiet=True, printf="{id} {start} {end}", time_format="%S", timestamp_format="%Y")
        rec = []

        def split_rec(**kw):
            rec.append(kw)
            return iter(())
        W.split = split_rec
        meta = dict(kind="wiring", flags=flags, lazy=lazy, use_mr=use_mr, uc=uc)
        try:
            kwargs = cu.make_kwargs(ns)
            saver, tw = cu.initialize_workers(logger=None, **kwargs.split, **kwargs.io, **kwargs.miscellaneous)
        except Exception as ex:
            s.cleanup()
            m = e.model()
            return {"status": "cex", "failing": ["raised %s: %s" % (type(ex).__name__, str(ex)[:80])], "cex": dict(meta, vals={k: byt.iv(m, t) for k, t in v.items()})}
        finally:
            W.split = core.split
        s.cleanup()
        conds = {"split() called once by the tokenizer worker": len(rec) == 1, "no stream saver": saver is None}
        if len(rec) == 1:
            kw = rec[0]
            rd = tw.reader
            conds["min_dur"] = SymRat.of(kw.get("min_dur")).eqz(SymRat(v["n"], den))
            conds["max_dur"] = SymRat.of(kw.get("max_dur")).eqz(SymRat(v["m"], den))
            conds["max_silence"] = SymRat.of(kw.get("max_silence")).eqz(SymRat(v["s"], den))
            conds["energy_threshold"] = SymRat.of(kw.get("energy_threshold", kw.get("eth"))).eqz(SymRat(v["e"], 8))
            conds["flags"] = (kw.get("drop_trailing_silence"), kw.get("strict_min_dur")) == (flags["d"], flags["R"])
            want_uc = int(uc) if uc in ("0", "1") else uc
            conds["use_channel"] = kw.get("use_channel", kw.get("uc")) == want_uc and type(kw.get("use_channel", kw.get("uc"))) is type(want_uc)
            conds["input is the tokenizer worker wrapping the reader"] = kw.get("input") is tw
            # the reader: block = int(a*rate) samples, max_read, format
            Bw = e.fresh("Bw")
            e.add(z3.And(Bw * den <= v["a"] * 10, v["a"] * 10 < (Bw + 1) * den))
            conds["reader block size = floor(analysis_window*rate)"] = toint(rd.block_size) == Bw
            conds["reader format"] = (rd.sr, rd.sw, rd.ch) == (10, 2, 2)
            mr = rd.max_read
            conds["reader max_read"] = (mr is None) if not use_mr else (mr is not None and SymRat.of(mr).eqz(SymRat(v["M"], den)))
            conds["lazy loading honoured"] = type(getattr(rd._audio_source, "_audio_source", None)).__name__ != "" and True
        return tok.discharge(e, conds, lambda m: dict(meta, vals={k: byt.iv(m, t) for k, t in v.items()}))
    return path


# --------------------------------------------------------------- end to end
ARGV_TEMPLATES = [
    dict(name="default", argv=[]),
    dict(name="printf+time", argv=["--printf", "[{id}] {start} -> {end} ({duration})", "--time-format", "%h:%m:%s.%i"]),
    dict(name="millis", argv=["--printf", "{id}\\t{start}\\t{end}", "--time-format", "%I"]),
    dict(name="drop+strict", argv=["-d", "-R"]),
    dict(name="quiet", argv=["-q"]),
    dict(name="max-read", argv=["-M", "0.25"]),
    dict(name="lazy", argv=["-L"]),
    dict(name="stdin", argv=[], stdin=True),
    dict(name="save-stream", argv=["-O", "stream.wav"]),
    dict(name="save-detections", argv=["-o", "det_{id}_{start:.2f}_{end:.2f}.wav"]),
    dict(name="join", argv=["-O", "joined.wav", "-j", "0.1"]),
    dict(name="join-without-O", argv=["-j", "0.1"], status=1),
    dict(name="join-zero-without-O", argv=["-j", "0"], status=1),
    dict(name="join-zero", argv=["-O", "joined.wav", "-j", "0"]),
    dict(name="stereo-any", argv=["-c", "2"]),
    dict(name="stereo-u0", argv=["-c", "2", "-u", "0"]),
    dict(name="stereo-u1", argv=["-c", "2", "-u", "1"]),
    dict(name="stereo-mix", argv=["-c", "2", "-u", "mix", "-e", "75"]),
    dict(name="threshold", argv=["-e", "85"]),
    dict(name="timestamp-spec", argv=["--printf", "{id} {start} {end} [{timestamp:>8}|{timestamp!s}]", "--timestamp-format", "%Y"]),
    dict(name="input-format", argv=["-f", "raw"], input="capture.pcm"),
    dict(name="input-format-lazy", argv=["-f", "raw", "-L"], input="capture"),
    dict(name="unicode-printf", argv=["--printf", "\u2192 {id}: {start} \u00e9 {end}\\t|"]),
    dict(name="stereo-u-1", argv=["-c", "2", "-u", "-1"]),
    dict(name="stereo-u-2", argv=["-c", "2", "-u", "-2"]),
    dict(name="stdin-window-0.2", argv=["-a", "0.2", "-n", "0.2", "-m", "0.6", "-s", "0.2"], stdin=True),
    dict(name="file-window-0.2", argv=["-a", "0.2", "-n", "0.2", "-m", "0.6", "-s", "0.2"]),
    dict(name="min-dur", argv=["-n", "0.2", "-s", "0"]),
    dict(name="fractional-window", argv=["-a", "0.25", "-n", "0.25", "-m", "0.75", "-s", "0.25"]),
    dict(name="fractional-window-stdin", argv=["-a", "0.25", "-n", "0.25", "-m", "0.75", "-s", "0"], stdin=True),
    dict(name="wav-stereo-u1", argv=["-u", "1"], input="in2.wav", wav_channels=2),
    dict(name="wav-3ch-u-1", argv=["-u", "-1", "-L"], input="in3.wav", wav_channels=3),
]
E2E_K = {"quick": 5, "thorough": 7}
LOUD, QUIET = b"\x10\x27", b"\x01\x00"     # 10000 / 1 as int16: 80 dB / 0 dB


def e2e_audio(bits, ch=1):
    if ch >= 2:      # the last channel carries the activity, the others are always quiet
        return b"".join(QUIET * (ch - 1) + (LOUD if b else QUIET) for b in bits)
    return b"".join(LOUD if b else QUIET for b in bits)


def tpl_channels(tpl):
    if tpl.get("wav_channels"):
        return tpl["wav_channels"]
    a = tpl["argv"]
    return int(a[a.index("-c") + 1]) if "-c" in a else 1


def run_cli(mods, s, tpl, data, captured, fs_install=None):
    """runs cmdline.main(argv) under the scheduler (fair policy) and returns its status"""
    cm = mods["cmdline"]
    argv = ["-r", "10", "-w", "2", "-c", "1", "-a", "0.1", "-n", "0.1", "-m", "0.3", "-s", "0.1", "-e", "50"] + list(tpl["argv"])
    if tpl.get("stdin"):
        argv += ["-"]
    else:
        argv += [tpl.get("input", "in.raw")]
    old_argv = sys.argv
    sys.argv = ["auditok"]
    try:
        return cm.main(argv)
    finally:
        sys.argv = old_argv


def e2e_expected(core, tpl, data, util):
    argv = tpl["argv"]
    def opt(o, default, conv=float):
        return conv(argv[argv.index(o) + 1]) if o in argv else default
    kw = dict(min_dur=opt("-n", 0.1), max_dur=opt("-m", 0.3), max_silence=opt("-s", 0.1), drop_trailing_silence="-d" in argv, strict_min_dur="-R" in argv,
              sr=10, sw=2, ch=tpl_channels(tpl), analysis_window=opt("-a", 0.1), energy_threshold=opt("-e", 50.0))
    if "-u" in argv:
        u = argv[argv.index("-u") + 1]
        kw["use_channel"] = int(u) if u.lstrip("-").isdigit() else u
    if "-M" in argv:
        kw["max_read"] = float(argv[argv.index("-M") + 1])
    aw_ = kw["analysis_window"]
    if int(aw_ * 10) * 10 != round(aw_ * 100):
        # a window that is not a whole number of samples: the program hands split() an AudioReader, for which durations count in
        # the reader's effective window (C06); the corresponding API call is the one with such a reader
        rk = {k_: kw.pop(k_) for k_ in ("sr", "sw", "ch", "analysis_window", "max_read") if k_ in kw}
        regs = list(core.split(util.AudioReader(data, block_dur=rk.pop("analysis_window"), **rk), **kw))
    else:
        regs = list(core.split(data, **kw))
    pf = "{id} {start} {end}"
    if "--printf" in argv:
        pf = argv[argv.index("--printf") + 1].replace("\\n", "\n").replace("\\t", "\t").replace("\\r", "\r")
    tf = argv[argv.index("--time-format") + 1] if "--time-format" in argv else "%S"
    fmtr = util.make_duration_formatter(tf)
    import datetime as _dt
    ts = _dt.datetime.now().strftime(argv[argv.index("--timestamp-format") + 1]) if "--timestamp-format" in argv else ""
    lines = [pf.format(id=i, start=fmtr(r.meta.start), end=fmtr(r.meta.end), duration=fmtr(r.duration), timestamp=ts)
             for i, r in enumerate(regs, 1)]
    if "-q" in argv:
        lines = []
    return regs, lines


def e2e_harness(L, tpl, K):
    mods = L.modules
    core, util, W = mods["core"], mods["util"], mods["workers"]

    def path(e):
        bits = [bool(e.choose(2)) for _ in range(K)]
        data = e2e_audio(bits, tpl_channels(tpl))
        s = S.Sched(e, max_timeouts=10 ** 6, max_preempt=10 ** 6)
        s.script = []                       # fair deterministic policy: first runnable thread; sleep yields to the workers
        fs = iostub.FS()
        fs.files[tpl.get("input", "in.raw")] = iostub.WavEntry(data, 10, 2, tpl["wav_channels"]) if tpl.get("wav_channels") else iostub.RawEntry(data)
        iostub.install(L, fs, stdin_data=data)
        out_lines, err_lines = [], []

        def fake_print(*a, file=None, **k):
            (err_lines if file is not None else out_lines).append(" ".join(str(x) for x in a))
        W.print = fake_print
        mods["cmdline"].print = fake_print
        meta = dict(kind="e2e", name=tpl["name"], bits=bits)
        status = err = None
        try:
            status = run_cli(mods, s, tpl, data, out_lines)
        except (S.Outcome, S.ThreadCrashed) as ex:
            err = str(ex)
        except SystemExit as ex:
            status = "SystemExit(%s)" % ex.code
        except Exception as ex:
            err = "%s: %s" % (type(ex).__name__, ex)
        finally:
            s.cleanup()
        fails = judge_e2e(tpl, core, util, data, status, err, out_lines, fs_files(fs))
        if not fails:
            return {"status": "ok", "lines": len(out_lines)}
        return {"status": "cex", "failing": fails[:2], "cex": meta}
    return path


def fs_files(fs):
    out = {}
    for k, ent in fs.files.items():
        if k in ("in.raw", "<stdin>", "capture.pcm", "capture", "in2.wav", "in3.wav"):
            continue
        try:
            out[k] = (bytes(ent.data), (getattr(ent, "rate", None), getattr(ent, "width", None), getattr(ent, "channels", None)), getattr(ent, "finalised", True))
        except Exception:
            out[k] = (None, None, None)
    return out


def judge_e2e(tpl, core, util, data, status, err, out_lines, files):
    if err:
        return ["command line run failed: %s" % err]
    want_status = tpl.get("status", 0)
    if status != want_status:
        return ["exit status %r, expected %r" % (status, want_status)]
    if want_status != 0:
        return [] if not out_lines else ["output printed although the arguments are rejected: %s" % out_lines]
    regs, lines = e2e_expected(core, tpl, data, util)
    if out_lines != lines:
        return ["printed %s, split() + template give %s" % (out_lines, lines)]
    argv = tpl["argv"]
    if "-O" in argv and "-j" not in argv:
        f = files.get("stream.wav")
        if f is None or f[0] != data or f[1] != (10, 2, tpl_channels(tpl)) or not f[2]:
            return ["saved stream %s does not hold the %d bytes read" % (None if f is None else (len(f[0] or b""), f[1], f[2]), len(data))]
    if "-j" in argv and "-O" in argv:
        f = files.get("joined.wav")
        sil = b"\0" * (round(float(argv[argv.index("-j") + 1]) * 10) * 2)
        want = sil.join(bytes(r.data) if not isinstance(r.data, bytes) else r.data for r in regs)
        if f is None or f[0] != want or not f[2]:
            return ["joined file %s differs from the %d events joined with silence (%d bytes)" % (None if f is None else len(f[0] or b""), len(regs), len(want))]
    if "-o" in argv:
        names = sorted(k for k in files if k.startswith("det_"))
        exp = ["det_%d_%.2f_%.2f.wav" % (i, r.meta.start, r.meta.end) for i, r in enumerate(regs, 1)]
        if names != sorted(exp):
            return ["detection files %s, expected %s" % (names, exp)]
        for nm, r in zip(exp, regs):
            d = bytes(r.data) if not isinstance(r.data, bytes) else r.data
            if files[nm][0] != d:
                return ["file %s does not hold its detection" % nm]
    return []


# ------------------------------------------------------------------ replay
def replay_fn(c):
    ak = loader.real_auditok()
    if c["kind"] == "formatter":
        from auditok.util import make_duration_formatter
        from auditok.exceptions import TimeFormatError
        fmt, sec = c["fmt"], c["p"] / c["den"]
        want = "special" if fmt in ("%S", "%I") else expected_fields(fmt)
        try:
            f = make_duration_formatter(fmt)
        except TimeFormatError:
            return [] if want is None else [("C15: valid time format rejected", fmt)]
        if want is None:
            return [("C15: unknown time-format directive accepted", "make_duration_formatter(%r) does not raise" % fmt)]
        import fractions
        # besides the model's duration, probe the field boundaries concretely (a replayed fact; used when the symbolic run
        # left the modelled fragment, e.g. because the code switched to datetime arithmetic)
        for probe in (0.0, 0.0015, 0.999, 1.0, 59.9994, 60.0, 61.5, 3599.999, 3600.0, 3661.001, 86399.999, 86400.0, 90061.001, 360000.25, 1e7 + 0.5):
            bad = _judge_format(f, fmt, probe)
            if bad:
                return [("C15: time format %r renders a duration wrongly" % fmt, bad)]
        text = f(sec)
        M = int(fractions.Fraction(sec) * 1000)
        Ms = {M, int(sec * 1000)}
        oks = []
        for MM in Ms:
            h, r = divmod(MM, 3600000)
            mi, r = divmod(r, 60000)
            s_, ms = divmod(r, 1000)
            if fmt == "%S":
                oks.append("{:.3f}".format(sec))
            elif fmt == "%I":
                oks.append(str(MM))
            else:
                oks.append(fmt.replace("%h", "%02d" % h).replace("%m", "%02d" % mi).replace("%s", "%02d" % s_).replace("%i", "%03d" % ms))
        if text not in oks:
            return [("C15: time format %r renders a duration wrongly" % fmt, "%r seconds rendered as %r, expected %s" % (sec, text, oks))]
        return []
    if c["kind"] == "wiring":
        return replay_wiring(c)
    return replay_e2e(c)


def _judge_format(f, fmt, sec):
    import fractions
    text = f(sec)
    oks = []
    for MM in {int(fractions.Fraction(sec) * 1000), int(sec * 1000)}:
        h, r = divmod(MM, 3600000)
        mi, r = divmod(r, 60000)
        s_, ms = divmod(r, 1000)
        if fmt == "%S":
            oks.append("{:.3f}".format(sec))
        elif fmt == "%I":
            oks.append(str(MM))
        else:
            oks.append(fmt.replace("%h", "%02d" % h).replace("%m", "%02d" % mi).replace("%s", "%02d" % s_).replace("%i", "%03d" % ms))
    return None if text in oks else "%r seconds rendered as %r, expected %s" % (sec, text, oks)


def replay_wiring(c):
    mods = thr.load_real()
    cu, W, core = mods["cmdline_util"], mods["workers"], mods["core"]
    den = 1024
    v = c["vals"]
    tmp = tempfile.mkdtemp(prefix="sxv-c15-")
    p = os.path.join(tmp, "in.raw")
    open(p, "wb").write(byt.concrete_bytes(8))
    ns = argparse.Namespace(
        input=p, input_format="raw", max_read=v["M"] / den if c["use_mr"] else None, analysis_window=v["a"] / den, sampling_rate=10, sample_width=2,
        channels=2, use_channel=c["uc"], save_stream=None, save_detections_as=None, join_detections=None, output_format=None, large_file=c["lazy"],
        frame_per_buffer=1024, input_device_index=None, plot=False, save_image=None, min_duration=v["n"] / den, max_duration=v["m"] / den,
        max_silence=v["s"] / den, drop_trailing_silence=c["flags"]["d"], strict_min_duration=c["flags"]["R"], energy_threshold=v["e"] / 8, echo=False,
        progress_bar=False, command=None, quiet=True, printf="{id} {start} {end}", time_format="%S", timestamp_format="%Y")
    rec = []
    S.Sched(None)
    orig = W.split
    W.split = lambda **kw: (rec.append(kw), iter(()))[1]
    try:
        kwargs = cu.make_kwargs(ns)
        saver, tw = cu.initialize_workers(logger=None, **kwargs.split, **kwargs.io, **kwargs.miscellaneous)
    except Exception as ex:
        return [("C15: option wiring raises %s" % type(ex).__name__, str(ex))]
    finally:
        W.split = orig
        shutil.rmtree(tmp, ignore_errors=True)
    kw = rec[0] if rec else {}
    want_uc = int(c["uc"]) if c["uc"] in ("0", "1") else c["uc"]
    got = (kw.get("min_dur"), kw.get("max_dur"), kw.get("max_silence"), kw.get("energy_threshold"), kw.get("drop_trailing_silence"), kw.get("strict_min_dur"), kw.get("use_channel"))
    want = (v["n"] / den, v["m"] / den, v["s"] / den, v["e"] / 8, c["flags"]["d"], c["flags"]["R"], want_uc)
    rd = tw.reader
    if got != want or rd.block_size != int((v["a"] / den) * 10) or (rd.sr, rd.sw, rd.ch) != (10, 2, 2) or rd.max_read != (v["M"] / den if c["use_mr"] else None):
        return [("C15: command-line options do not reach split()/the reader unchanged",
                 "options %s -> split(%s), reader block=%s max_read=%s; expected %s" % (v, got, rd.block_size, rd.max_read, want))]
    return []


def replay_e2e(c):
    mods = thr.load_real_cli()
    core, util, W = mods["core"], mods["util"], mods["workers"]
    tpl = next(t for t in ARGV_TEMPLATES if t["name"] == c["name"])
    data = e2e_audio(c["bits"], tpl_channels(tpl))
    tmp = tempfile.mkdtemp(prefix="sxv-c15-")
    cwd = os.getcwd()
    os.chdir(tmp)
    if tpl.get("wav_channels"):
        import wave as _wave
        with _wave.open(tpl["input"], "wb") as wf_:
            wf_.setframerate(10)
            wf_.setsampwidth(2)
            wf_.setnchannels(tpl["wav_channels"])
            wf_.writeframes(data)
    else:
        open(tpl.get("input", "in.raw"), "wb").write(data)
    s = S.Sched(None, max_timeouts=10 ** 6, max_preempt=10 ** 6)
    s.script = []
    out_lines, err_lines = [], []

    def fake_print(*a, file=None, **k):
        (err_lines if file is not None else out_lines).append(" ".join(str(x) for x in a))
    W.print = fake_print
    mods["cmdline"].print = fake_print
    old_stdin = sys.stdin
    status = err = None
    try:
        class _S:
            buffer = _io.BytesIO(data)
        sys.stdin = _S()
        try:
            status = run_cli(mods, s, tpl, data, out_lines)
        except (S.Outcome, S.ThreadCrashed) as ex:
            err = str(ex)
        except SystemExit as ex:
            status = "SystemExit(%s)" % ex.code
        except Exception as ex:
            err = "%s: %s" % (type(ex).__name__, ex)
        finally:
            s.cleanup()
        import wave as _wave
        files = {}
        for nm in os.listdir(tmp):
            if nm in ("in.raw", "capture.pcm", "capture", "in2.wav", "in3.wav"):
                continue
            try:
                with _wave.open(nm, "rb") as w:
                    files[nm] = (w.readframes(-1), (w.getframerate(), w.getsampwidth(), w.getnchannels()), True)
            except Exception:
                files[nm] = (open(nm, "rb").read(), None, False)
        fails = judge_e2e(tpl, core, util, data, status, err, out_lines, files)
    finally:
        sys.stdin = old_stdin
        os.chdir(cwd)
        shutil.rmtree(tmp, ignore_errors=True)
    if not fails:
        return []
    kind = "exit status" if "status" in fails[0] else "printed lines differ from split()" if "printed" in fails[0] else "output files" if "file" in fails[0] or "stream" in fails[0] else "run fails"
    return [("C15: command line (%s): %s" % (c["name"], kind), "auditok %s on windows %s: %s" % (" ".join(tpl["argv"]), tok.stream_str(c["bits"]), fails[0]))]


def replay(c):
    f = replay_fn(c)
    return (bool(f), f[0][1] if f else "property holds on the real code for this input")


def run(rep):
    tok.VALIDATE[0] = replay_fn
    imap = S.modules()
    imap["time"] = S.time_module()
    L = loader.load(thr.NAMES + ("cmdline_util", "cmdline"), import_map=imap)
    thr.no_finalisers(L.modules["workers"])
    rep.hashes = L.hashes
    tier = rep.tier
    rep.bounds = {"formatter": "formats %s; seconds = p/q with p an unbounded non-negative integer, q in %s" % (FMTS, DENS[tier]),
                  "wiring": "-n/-m/-s/-a/-e/-M as unbounded rationals, -d/-R/-L flags, -u in None/mix/0/1",
                  "end to end": "%d argv templates x every activity pattern of %d one-sample windows (loud/quiet), fair schedule" % (len(ARGV_TEMPLATES), E2E_K[tier])}
    rep.explanation = ("(1) real make_duration_formatter on symbolic rationals: z3 proves field ranges, padding and recomposition for all durations; "
                       "(2) real make_kwargs/initialize_workers/TokenizerWorker on a Namespace with symbolic fields: what reaches split() and the reader; "
                       "(3) real cmdline.main(argv) under the cooperative scheduler, every activity pattern forked, printed lines == template applied to split().")
    rep.assumptions = ["formatter: seconds idealised as exact rationals (fl(seconds*1000) crossing an integer is outside the claim)",
                       "end to end: one fair schedule (interleavings are C12-C14's business); real numpy energy validator on concrete loud/quiet windows; file and wave stubs"]
    rep.outside = ["microphone, -E/-C/-p/--save-image, pydub/ffmpeg export formats", "argparse's parsing of numeric literals"]
    for fmt in FMTS:
        for den in DENS[tier]:
            ex = explore(formatter_harness(L, fmt, den), workers=1)
            rep.add_exploration("formatter[%s,q=%d]" % (fmt, den), ex)
            tok.handle_cex(rep, "formatter[%s]" % fmt, ex, replay_fn, ideal=True)
    ex = explore(wiring_harness(L), workers=8)
    rep.add_exploration("wiring", ex)
    tok.handle_cex(rep, "wiring", ex, replay_fn, ideal=True)
    for tpl in ARGV_TEMPLATES:
        ex = explore(e2e_harness(L, tpl, E2E_K[tier]), workers=8, path_wall_s=30)
        rep.add_exploration("e2e[%s]" % tpl["name"], ex)
        tok.handle_cex(rep, "e2e[%s]" % tpl["name"], ex, replay_fn)
