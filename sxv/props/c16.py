"""C16 - region slicing follows Python slice semantics on whole samples.
Unbounded LIA over (n, a, b) + byte identity by segment normalisation; time views under the rational idealisation."""
import fractions

import z3

from ..engine import explore, S
from ..values import SymBytes, SymInt, SymRat, slice_goal, toint, tobool
from .. import loader
from . import byt, tok

I = z3.Int
DENS = {"quick": [1, 1000, 1024], "thorough": [1, 2, 1000, 1024, 44100]}


def sample_harness(core, sw, ch, sr, a_kind, b_kind):
    bps = sw * ch

    def path(e):
        D, data = byt.sym_audio(e, "D", bps)
        n = D.nsamples
        a = None if a_kind == "none" else I("a")
        b = None if b_kind == "none" else I("b")
        try:
            reg = core.AudioRegion(data, sr, sw, ch)
            res = reg[slice(None if a is None else SymInt(a), None if b is None else SymInt(b))]
            ln = core.__sx_len__(res)
            rl = core.__sx_len__(reg)
        except Exception as ex:
            return cex_now(e, "raised %s: %s" % (type(ex).__name__, str(ex)[:60]), dict(n=n, a=a, b=b), dict(sw=sw, ch=ch, sr=sr, view="samples"))
        lo, hi = byt.py_slice_terms(a, b, n)
        explen = z3.If(hi > lo, hi - lo, 0)
        conds = {
            "bytes": slice_goal(res.data, D, lo * bps, hi * bps),
            "len": toint(ln) == explen,
            "region len": toint(rl) == n,
            "params": z3.And(tobool(res.sampling_rate == sr), tobool(res.sample_width == sw), tobool(res.channels == ch)),
            "duration": SymRat.of(res.duration).eqz(SymRat(explen, sr)),
            "operand unchanged": reg.data is data,
        }
        return finish(e, conds, dict(n=n, a=a, b=b), dict(sw=sw, ch=ch, sr=sr, view="samples"))
    return path


def time_harness(core, sw, ch, sr, view, den, a_kind, b_kind):
    """view 'sec': bounds are rationals p/den; view 'ms': bounds are integers (milliseconds)"""
    bps = sw * ch

    def path(e):
        D, data = byt.sym_audio(e, "D", bps)
        n = D.nsamples
        pa = None if a_kind == "none" else I("a")
        pb = None if b_kind == "none" else I("b")
        q = den if view == "sec" else 1000
        meta = dict(sw=sw, ch=ch, sr=sr, view=view, den=q)

        def arg(p):
            if p is None:
                return None
            return SymRat(p, den) if view == "sec" else SymInt(p)
        try:
            reg = core.AudioRegion(data, sr, sw, ch)
            v = reg.sec if view == "sec" else reg.ms
            res = v[slice(arg(pa), arg(pb))]
            res2 = None
            if view == "ms":
                res2 = reg.sec[slice(None if pa is None else SymRat(pa, 1000), None if pb is None else SymRat(pb, 1000))]
        except Exception as ex:
            return cex_now(e, "raised %s: %s" % (type(ex).__name__, str(ex)[:60]), dict(n=n, a=pa, b=pb), meta)
        # oracle: start = trunc(t0*rate); stop = nearest integer to t1*rate (either neighbour on a tie)
        conds = {}
        if pa is None:
            s0 = z3.IntVal(0)
        else:
            s0 = e.fresh("s0")
            x = pa * sr       # t0*rate = x / q
            e.add(z3.If(x >= 0, z3.And(s0 * q <= x, x < (s0 + 1) * q), z3.And((s0 - 1) * q < x, x <= s0 * q)))
        cands = []
        if pb is None:
            cands = [None]
        else:
            y = pb * sr
            f = e.fresh("s1")     # f = floor(y/q + 1/2)
            e.add(z3.And(2 * f * q <= 2 * y + q, 2 * y + q < 2 * (f + 1) * q))
            cands = [f, z3.If(2 * f * q == 2 * y + q, f - 1, f)]   # on an exact tie the lower neighbour is as near
        alts = []
        for s1 in cands:
            lo, hi = byt.py_slice_terms(s0 if pa is not None else None, s1, n)
            alts.append(z3.And(slice_goal(res.data, D, lo * bps, hi * bps)))
        conds["bytes within one sample period (start truncated, stop nearest)"] = z3.Or(*alts)
        conds["params"] = z3.And(tobool(res.sampling_rate == sr), tobool(res.sample_width == sw), tobool(res.channels == ch))
        if res2 is not None:
            from ..values import bytes_eq_formula, lift
            conds["ms view == sec view at t/1000"] = bytes_eq_formula(lift(res.data), lift(res2.data))
        return finish(e, conds, dict(n=n, a=pa, b=pb), meta)
    return path


def twostep_harness(core, sw, ch, sr, view, den):
    """views of a region obtained by slicing refer to that region, not to its parent"""
    bps = sw * ch

    def path(e):
        D, data = byt.sym_audio(e, "D", bps)
        n = D.nsamples
        a0, pa = I("a0"), I("a")
        e.assume(z3.And(a0 >= 0, a0 <= n))
        meta = dict(sw=sw, ch=ch, sr=sr, view=view, den=den, kind="twostep")
        try:
            sub = core.AudioRegion(data, sr, sw, ch)[slice(SymInt(a0), None)]
            v = sub.sec if view == "sec" else sub.ms
            res = v[slice(SymRat(pa, den) if view == "sec" else SymInt(pa), None)]
            ln = core.__sx_len__(sub)
        except Exception as ex:
            return cex_now(e, "raised %s: %s" % (type(ex).__name__, str(ex)[:60]), dict(n=n, a0=a0, a=pa), meta)
        q = den if view == "sec" else 1000
        s0 = e.fresh("s0")
        x = pa * sr
        e.add(z3.If(x >= 0, z3.And(s0 * q <= x, x < (s0 + 1) * q), z3.And((s0 - 1) * q < x, x <= s0 * q)))
        m = n - a0
        lo, hi = byt.py_slice_terms(s0, None, m)
        conds = {"sub-region length": toint(ln) == m,
                 "time view of the sub-region slices the sub-region": slice_goal(res.data, D, (a0 + lo) * bps, (a0 + hi) * bps)}
        return finish(e, conds, dict(n=n, a0=a0, a=pa), meta)
    return path


def type_harness(core, case):
    def path(e):
        D, data = byt.sym_audio(e, "D", 2)
        reg = core.AudioRegion(data, 10, 2, 1)
        a = SymInt(I("a"))
        r = SymRat(I("a"), 1024)
        idx = {"step": lambda: reg[slice(a, None, 2)], "symstep": lambda: reg[slice(None, None, a)], "int": lambda: reg[a],
               "float-start": lambda: reg[slice(r, None)], "float-stop": lambda: reg[slice(None, r)], "str": lambda: reg[slice("1", None)],
               "sec-step": lambda: reg.sec[slice(r, None, 1)], "sec-str": lambda: reg.sec[slice("1", None)], "sec-int-index": lambda: reg.sec[a],
               "ms-float": lambda: reg.ms[slice(r, None)], "ms-step": lambda: reg.ms[slice(a, None, a)], "ms-str": lambda: reg.ms[slice(None, "7")],
               "ms-float-stop": lambda: reg.ms[slice(None, r)], "ms-int-start-float-stop": lambda: reg.ms[slice(a, r)],
               "sec-fraction-stop": lambda: reg.sec[slice(None, fractions.Fraction(1, 2))], "sec-decimal-start": lambda: reg.sec[slice(__import__("decimal").Decimal("0.25"), None)],
               "sec-none-index": lambda: reg.sec[None], "str-stop": lambda: reg[slice(None, "3")],
               }[case]
        try:
            idx()
            out = "returned"
        except TypeError:
            out = "TypeError"
        except Exception as ex:
            out = "raised " + type(ex).__name__
        if out == "TypeError":
            return {"status": "ok", "outcome": out}
        m = e.model()
        return {"status": "cex", "failing": ["%s: %s instead of TypeError" % (case, out)],
                "cex": {"kind": "type", "case": case, "n": byt.iv(m, D.nsamples), "a": byt.iv(m, I("a"))}}
    return path


TYPE_CASES = ["step", "symstep", "int", "float-start", "float-stop", "str", "sec-step", "sec-str", "sec-int-index", "ms-float", "ms-step", "ms-str",
              "ms-float-stop", "ms-int-start-float-stop", "sec-fraction-stop", "sec-decimal-start", "sec-none-index", "str-stop"]


def cex_now(e, why, syms, meta):
    m = e.model()
    if m is None:
        return {"status": "unknown", "why": why}
    return {"status": "cex", "failing": [why], "cex": mk(m, syms, meta)}


def mk(m, syms, meta):
    c = dict(meta)
    for k, t in syms.items():
        c[k] = None if t is None else byt.iv(m, t)
    return c


def finish(e, conds, syms, meta):
    return tok.discharge(e, conds, lambda m: mk(m, syms, meta))


# ------------------------------------------------------------------ replay
def replay_fn(c):
    ak = loader.real_auditok()
    if c.get("kind") == "type":
        data = byt.concrete_bytes(c["n"] * 2)
        reg = ak.AudioRegion(data, 10, 2, 1)
        a = c["a"]
        r = a / 1024
        idx = {"step": lambda: reg[a::2], "symstep": lambda: reg[::a], "int": lambda: reg[a], "float-start": lambda: reg[r:],
               "float-stop": lambda: reg[:r], "str": lambda: reg["1":], "sec-step": lambda: reg.sec[r::1], "sec-str": lambda: reg.sec["1":],
               "sec-int-index": lambda: reg.sec[a], "ms-float": lambda: reg.ms[r:], "ms-step": lambda: reg.ms[a::a], "ms-str": lambda: reg.ms[:"7"],
               "ms-float-stop": lambda: reg.ms[:r], "ms-int-start-float-stop": lambda: reg.ms[a:r],
               "sec-fraction-stop": lambda: reg.sec[:fractions.Fraction(1, 2)], "sec-decimal-start": lambda: reg.sec[__import__("decimal").Decimal("0.25"):],
               "sec-none-index": lambda: reg.sec[None], "str-stop": lambda: reg[:"3"]}[c["case"]]
        try:
            idx()
            out = "returned a value"
        except TypeError:
            return []
        except Exception as ex:
            out = "raised " + type(ex).__name__
        return [("C16: %s index does not raise TypeError" % c["case"], "region of %d samples, index case %s with value %s: %s" % (c["n"], c["case"], a, out))]
    sw, ch, sr = c["sw"], c["ch"], c["sr"]
    bps = sw * ch
    n = c["n"]
    data = byt.concrete_bytes(n * bps)
    samples = [data[i * bps:(i + 1) * bps] for i in range(n)]
    reg = ak.AudioRegion(data, sr, sw, ch)
    a, b = c.get("a"), c.get("b")
    if c.get("kind") == "twostep":
        q = c["den"] if c["view"] == "sec" else 1000
        t = a / q
        try:
            sub = reg[c["a0"]:]
            res = sub.sec[t:] if c["view"] == "sec" else sub.ms[a:]
        except Exception as ex:
            return [("C16: slicing raises %s" % type(ex).__name__, str(ex))]
        subs = samples[c["a0"]:]
        wants = {b"".join(subs[s0:]) for s0 in {int(fractions.Fraction(t) * sr), int(t * sr)}}
        if res.data in wants:
            return []
        return [("C16: time view of a sliced region does not slice that region",
                 "region[%d:].%s[%r:] on a %d-sample region returns %d bytes, expected %s" % (c["a0"], c["view"], t if c["view"] == "sec" else a, n, len(res.data), sorted(len(w) for w in wants)))]
    try:
        if c["view"] == "samples":
            res = reg[a:b]
            want = [b"".join(samples[a:b])]
            desc = "region[%s:%s]" % (a, b)
        else:
            q = c["den"]
            if c["view"] == "sec":
                ta = None if a is None else a / q
                tb = None if b is None else b / q
                res = reg.sec[ta:tb]
                desc = "region.sec[%r:%r]" % (ta, tb)
            else:
                ta = None if a is None else a / 1000
                tb = None if b is None else b / 1000
                res = reg.ms[a:b]
                desc = "region.ms[%s:%s]" % (a, b)
            # the requested instants are the doubles actually passed; judged exactly, and additionally tolerant to the
            # IEEE rounding of the single product t*rate (outside the claim)
            s0s = {0} if ta is None else {int(fractions.Fraction(ta) * sr), int(ta * sr)}
            if tb is None:
                s1s = {None}
            else:
                y2 = 2 * fractions.Fraction(tb) * sr + 1
                fl = y2.__floor__() // 2 if False else (y2 / 2).__floor__()
                s1s = {fl, round(tb * sr)}
                if (y2 / 2) == fl:
                    s1s.add(fl - 1)
            want = [b"".join(samples[s0:s1]) for s0 in s0s for s1 in s1s]
    except Exception as ex:
        return [("C16: slicing raises %s" % type(ex).__name__, "%d-sample region (sw=%d ch=%d sr=%d): %s" % (n, sw, ch, sr, ex))]
    ok = res.data in want and (res.sampling_rate, res.sample_width, res.channels) == (sr, sw, ch) and len(res) * bps == len(res.data) \
        and abs(res.duration - len(res) / sr) < 1e-12
    if ok:
        return []
    return [("C16: %s view slice differs from Python slice semantics" % c["view"],
             "%s on a %d-sample region (sw=%d ch=%d sr=%d) returns %d bytes, expected %s" % (desc, n, sw, ch, sr, len(res.data), [len(w) for w in want]))]


LENGTH_PROBE_N = 0


def length_probe(only=None):
    global LENGTH_PROBE_N
    ak = loader.real_auditok()
    out = []
    pairs = [(n, sr) for sr in (8000, 16000, 22050, 44100, 48000, 1234) for n in (0, 1, 15, 21, 23, 27, 30, 39, 46, 49, 1001, 1003, 44099)]
    if only:
        pairs = [only]
    LENGTH_PROBE_N = len(pairs)
    for n, sr in pairs:
        r = ak.AudioRegion(bytes(n), sr, 1, 1)
        sub = r[:n]
        if len(r) != n or r.len != n or len(sub) != n or abs(r.duration - n / sr) > 1e-12:
            out.append(("C16: len() is not the sample count", "AudioRegion of %d samples at %d Hz: len() = %d, duration = %r" % (n, sr, len(r), r.duration),
                        {"kind": "length", "n": n, "sr": sr}))
    return out


def replay(c):
    if c.get("kind") == "length":
        f = length_probe((c["n"], c["sr"]))
        return (bool(f), f[0][1] if f else "property holds on the real code for this input")
    f = replay_fn(c)
    return (bool(f), f[0][1] if f else "property holds on the real code for this input")


def run(rep):
    tok.VALIDATE[0] = replay_fn
    L = loader.load()
    core = L.core
    rep.hashes = L.hashes
    tier = rep.tier
    rep.bounds = {"samples view": "region length n, bounds a, b: unbounded integers (every combination of present/omitted); (sample_width, channels) in %s; rate in %s" % (byt.fmts(tier), byt.rates(tier)),
                  "time views": "bounds t = p/q with p an unbounded integer of either sign, q in %s (seconds) / q = 1000 (milliseconds)" % DENS[tier]}
    rep.explanation = ("Real AudioRegion.__getitem__/_SecondsView/_MillisView executed on a region over an uninterpreted byte sequence "
                       "of unbounded symbolic length; z3 proves result.data == D[lo*bps:hi*bps] with (lo,hi) = slice.indices(n) spelled "
                       "out in LIA, for all integers n, a, b.")
    rep.assumptions = ["float arithmetic on time bounds idealised as exact rationals p/q (IEEE rounding of the single product t*rate is outside the claim)",
                       "sampling rate, sample width, channels enumerated constants"]
    rep.outside = ["time bounds that are not rationals with a denominator in the stated set", "IEEE rounding of t*rate"]
    kinds = [("int", "int"), ("int", "none"), ("none", "int"), ("none", "none")]
    # bound kinds outermost so that every format is met early (a change that breaks multichannel data only is then found within
    # the first harnesses even if each of them runs into its deadline)
    for ak_, bk in kinds:
        for sr in byt.rates(tier)[:2 if tier == "quick" else None]:
            for (sw, ch) in byt.fmts(tier):
                hn = "samples[sw=%d,ch=%d,sr=%d,%s:%s]" % (sw, ch, sr, ak_, bk)
                ex = explore(sample_harness(core, sw, ch, sr, ak_, bk), workers=4)
                rep.add_exploration(hn, ex)
                tok.handle_cex(rep, hn, ex, replay_fn)
    tf = byt.fmts(tier)[:2] if tier == "quick" else byt.fmts(tier)[::2]
    for (sw, ch) in tf:
        for sr in byt.rates(tier):
            for view, dens in (("sec", DENS[tier]), ("ms", [1000])):
                for den in dens:
                    for ak_, bk in kinds[:3]:
                        hn = "%s[sw=%d,ch=%d,sr=%d,q=%d,%s:%s]" % (view, sw, ch, sr, den, ak_, bk)
                        ex = explore(time_harness(core, sw, ch, sr, view, den, ak_, bk), workers=4)
                        rep.add_exploration(hn, ex)
                        tok.handle_cex(rep, hn, ex, replay_fn, ideal=True)
    for view, den in (("sec", 1000), ("ms", 1000), ("sec", 1024)):
        hn = "twostep[%s,q=%d]" % (view, den)
        ex = explore(twostep_harness(core, 2, 1, 10, view, den), workers=4)
        rep.add_exploration(hn, ex)
        tok.handle_cex(rep, hn, ex, replay_fn, ideal=True)
    # concrete probe (not part of the solver claim): len() and duration for sample counts and rates where a float-based
    # implementation would be off by one (n/rate*rate < n in doubles)
    bad = length_probe()
    rep.notes.append("length probe: %d (n, rate) pairs on the real AudioRegion, %d wrong" % (LENGTH_PROBE_N, len(bad)))
    for key, what, c in bad[:1]:
        rep.add_violation(key, what, c)
    for case in TYPE_CASES:
        ex = explore(type_harness(core, case), workers=1)
        rep.add_exploration("types[%s]" % case, ex)
        tok.handle_cex(rep, "types[%s]" % case, ex, replay_fn)
    rep.witness("TypeError paths reached", True)
