"""C13 - saved stream and joined events are byte-exact under every interleaving.
S-shape as C12, with the real StreamSaverWorker (symbolic cache threshold), AudioEventsJoinerWorker and RegionSaverWorker
writing through the in-memory wave/open stubs."""
import z3

from ..engine import explore
from ..values import SymBool, SymInt, SymRat
from ..stubs import sched as S, iostub
from .. import loader
from . import byt, thr, tok
from .c12 import sig, compact

I = z3.Int
BOUNDS = {"quick": [dict(what="saver", K=3, pre=2, to=1), dict(what="joiner", K=3, pre=1, to=1), dict(what="joiner", K=3, pre=1, to=1, sil0=True),
                    dict(what="regions", K=3, pre=1, to=1), dict(what="saver-late", K=2, pre=1, to=1), dict(what="saver-overlap", K=3, pre=1, to=1)],
          "thorough": [dict(what="saver", K=4, pre=2, to=1), dict(what="saver", K=3, pre=3, to=1), dict(what="joiner", K=5, pre=2, to=1),
                       dict(what="joiner", K=4, pre=2, to=1, sil0=True), dict(what="regions", K=5, pre=2, to=1), dict(what="saver+joiner", K=2, pre=1, to=1),
                       dict(what="saver-late", K=3, pre=2, to=1), dict(what="saver-overlap", K=4, pre=2, to=1)]}
TEMPLATE = "det_{id}_{start:.3f}_{end}_{duration:.4f}.wav"      # `{end}` bare: the float as it is (0.30000000000000004)
SIL_Q = 4   # silence duration in quarter samples


def run_once(mods, e, s, what, K, data, val, cache_bytes, sil_q, fs, skw=None):
    skw = skw or thr.SPLIT_KW
    """drives the real workers; returns a dict of observations (all concrete on the path)"""
    W, core, util = mods["workers"], mods["core"], mods["util"]
    if "overlap" in what:
        reader = util.AudioReader(data, block_dur=0.2, hop_dur=0.1, sr=thr.SR, sw=thr.SW, ch=thr.CH)
    else:
        reader = util.AudioReader(data, block_dur=0.1, sr=thr.SR, sw=thr.SW, ch=thr.CH)
    seen_blocks = []
    orig_read = reader.read

    def counting_read():
        b = orig_read()
        if b is not None:
            seen_blocks.append(bytes(b))
        return b
    reader.read = counting_read
    observers, saver, joiner, rsaver = [], None, None, None
    src = reader
    keep = []
    late = "late" in what
    if "saver" in what:
        saver = W.StreamSaverWorker(reader, filename="stream.wav", export_format=None, cache_size_sec=cache_bytes)
        keep.append(saver)
        src = saver
        if not late:
            saver.start()
    if "joiner" in what:
        joiner = W.AudioEventsJoinerWorker(silence_duration=sil_q, filename="joined.wav", export_format=None, sampling_rate=thr.SR,
                                           sample_width=thr.SW, channels=thr.CH)
        keep.append(joiner)
        observers.append(joiner)
    if "regions" in what:
        rsaver = W.RegionSaverWorker(TEMPLATE, None)
        observers.append(rsaver)
    tok_blocks = []

    def val2(frame):
        tok_blocks.append(bytes(frame))
        return val(frame)
    tw = W.TokenizerWorker(src, observers, validator=val2, **skw)
    s.private.add(id(tw._inbox))
    tw.start_all()
    if saver is not None and late:
        saver.start()            # the writer thread is started after the reader thread: nothing read may be lost
    tw.join()
    for o in observers:
        o.join()
    if saver is not None:
        saver.join()
    thr.neutralise(keep)
    return dict(read=seen_blocks, tokenizer=tok_blocks, detections=[(d.id, d.start, d.end, d.duration) for d in tw.detections],
                finished=all(t.finished for t in s.threads), saver=saver)


def file_bytes(fs, name):
    ent = fs.files.get(name)
    if ent is None:
        return None
    return bytes(ent.data), (getattr(ent, "rate", None), getattr(ent, "width", None), getattr(ent, "channels", None)), getattr(ent, "finalised", None)


def judge(what, obs, fs, regs, joined, sil_bytes):
    fails = []
    if not obs["finished"]:
        fails.append("some worker thread did not terminate")
    if obs["tokenizer"] != obs["read"]:
        fails.append("tokenizer saw %d blocks, the wrapped reader produced %d" % (len(obs["tokenizer"]), len(obs["read"])))
    if "saver" in what:
        f = file_bytes(fs, "stream.wav")
        if f is None:
            fails.append("stream file not written")
        else:
            if f[0] != b"".join(obs["read"]):
                fails.append("saved stream holds %d bytes, the blocks read hold %d" % (len(f[0]), sum(map(len, obs["read"]))))
            if f[1] != (thr.SR, thr.SW, thr.CH):
                fails.append("saved stream header %s differs from the source's %s" % (f[1], (thr.SR, thr.SW, thr.CH)))
            if not f[2]:
                fails.append("saved stream file was not closed")
    if "joiner" in what:
        f = file_bytes(fs, "joined.wav")
        want = sil_bytes.join(r[2] for r in regs) if regs else b""
        if f is None:
            fails.append("joined file not written")
        else:
            if f[0] != want:
                fails.append("joined file holds %d bytes, events joined with silence hold %d" % (len(f[0]), len(want)))
            if (joined is None) != (not regs) or (joined is not None and joined != want):
                fails.append("split_and_join_with_silence() differs from the events joined with round(silence*rate) zero samples")
            if f[1] != (thr.SR, thr.SW, thr.CH) or not f[2]:
                fails.append("joined file header/closing wrong: %s closed=%s" % (f[1], f[2]))
    if "regions" in what:
        names = sorted(k for k in fs.files if k.startswith("det_"))
        if len(names) != len(regs):
            fails.append("%d detection files for %d detections: %s" % (len(names), len(regs), names))
        for i, (a, b, d) in enumerate(regs, 1):
            nm = TEMPLATE.format(id=i, start=a * 0.1, end=a * 0.1 + (b - a) / thr.SR, duration=(b - a) / thr.SR)
            f = file_bytes(fs, nm)
            if f is None:
                fails.append("no file named %s among %s" % (nm, names))
            elif f[0] != d or f[1] != (thr.SR, thr.SW, thr.CH):
                fails.append("file %s does not hold detection %d" % (nm, i))
    return fails


def harness(L, what, K, max_pre, max_to, sil0=False):
    mods = L.modules
    core = mods["core"]
    data = thr.tagged_audio(K)
    skw = dict(thr.SPLIT_KW, max_silence=0) if sil0 else thr.SPLIT_KW

    def path(e):
        s = S.Sched(e, max_timeouts=max_to, max_preempt=max_pre)
        s.yield_on_start = "late" in what
        fs = iostub.FS()
        iostub.install(L, fs)
        val = thr.window_validator(data)
        cb = I("cache_bytes")
        e.assume(cb >= 0)
        silq = e.choose(3) * 2 + 1 if "joiner" in what else 0      # 1/4, 3/4, 5/4 samples... see below
        sil_dur = SymRat(z3.IntVal(silq), 4 * thr.SR)                  # quarter samples: 0.25 -> 0, 0.75 -> 1, 1.25 -> 1
        meta = dict(what=what, K=K, pre=max_pre, to=max_to, silq=silq, sil0=sil0)
        e.on_budget = lambda m: mk(m, meta, s, cb)
        obs = None
        err = None
        try:
            obs = run_once(mods, e, s, what, K, data, val, SymRat(cb, thr.SR * thr.BPS), sil_dur, fs, skw)
        except (S.Outcome, S.ThreadCrashed) as ex:
            err = str(ex)
        finally:
            s.cleanup()
        regs = sig(list(core.split(data, sr=thr.SR, sw=thr.SW, ch=thr.CH, analysis_window=0.1, validator=thr.window_validator(data), **skw)))
        joined = None
        if "joiner" in what:
            j = core.split_and_join_with_silence(data, sil_dur, sr=thr.SR, sw=thr.SW, ch=thr.CH, analysis_window=0.1,
                                                 validator=thr.window_validator(data), **skw)
            joined = None if j is None else bytes(j.data) if not isinstance(j.data, bytes) else j.data
        nsil = round(silq / 4)
        fails = [err] if err else judge(what, obs, fs, regs, joined, b"\0" * (nsil * thr.BPS))
        if not fails:
            out = {"status": "ok", "detections": len(regs), "schedule_len": len(s.log)}
            if __import__("zlib").crc32(bytes(e.trace)) % 61 == 0:
                mm = e.model()
                if mm is not None:
                    out["instance"] = {"windows": tok.stream_str(thr.bits_from_model(mm, K)), "schedule": compact([list(x) for x in s.log])}
            return out
        m = e.model()
        return {"status": "cex", "failing": fails[:2], "cex": mk(m, meta, s, cb)}
    return path


# ------------------------------------------------------------------ long streams exported as raw / wav
LONG = dict(K=70, SPW=1000)      # 70 windows of 1000 samples: more frames than any internal chunk size of 64 Ki frames


def run_export(mods, s, data, fmt, joiner):
    """a long, concrete, entirely active stream saved by the stream saver (and joined by the joiner), then exported"""
    W, util = mods["workers"], mods["util"]
    bd = LONG["SPW"] / thr.SR
    reader = util.AudioReader(data, block_dur=bd, sr=thr.SR, sw=thr.SW, ch=thr.CH)
    saver = W.StreamSaverWorker(reader, filename="long." + fmt, export_format=None)
    observers, j = [], None
    if joiner:
        j = W.AudioEventsJoinerWorker(silence_duration=0.1, filename="longjoin." + fmt, export_format=None, sampling_rate=thr.SR,
                                      sample_width=thr.SW, channels=thr.CH)
        observers.append(j)
    saver.start()
    tw = W.TokenizerWorker(saver, observers, validator=lambda f: True, min_dur=bd, max_dur=bd * 20, max_silence=0)
    s.private.add(id(tw._inbox))
    tw.start_all()
    tw.join()
    for o in observers:
        o.join()
    saver.join()
    names = [saver.export_audio()] + ([j.export_audio()] if j else [])
    thr.neutralise([saver] + ([j] if j else []))
    return names, [(d.start, d.end) for d in tw.detections]


def export_expect(data, dets):
    sil = b"\0" * (round(0.1 * thr.SR) * thr.BPS)
    evs = [data[round(a * thr.SR) * thr.BPS:round(b * thr.SR) * thr.BPS] for a, b in dets]
    return data, sil.join(evs)


def export_harness(L, fmt, joiner):
    mods = L.modules
    data = thr.tagged_audio(LONG["K"], LONG["SPW"])

    def path(e):
        s = S.Sched(e, max_timeouts=0, max_preempt=0)
        s.max_steps = 50 * LONG["K"] + 5000
        fs = iostub.FS()
        iostub.install(L, fs)
        if fmt != "wav":
            # leftovers of an earlier session under the names the workers would use for their temporary wav files
            for nm in ("long.%s.wav" % fmt, "longjoin.%s.wav" % fmt):
                fs.files[nm] = iostub.WavEntry(b"\1\2" * 25, thr.SR, thr.SW, thr.CH)
        meta = dict(what="export", fmt=fmt, joiner=joiner)
        fails = []
        try:
            names, dets = run_export(mods, s, data, fmt, joiner)
            want = export_expect(data, dets)
            for nm, w in zip(names, want):
                ent = fs.files.get(nm)
                got = None if ent is None else bytes(ent.data)
                if got != w:
                    fails.append("exported file %s holds %s bytes, expected %d" % (nm, None if got is None else len(got), len(w)))
        except (S.Outcome, S.ThreadCrashed) as ex:
            fails.append(str(ex))
        except Exception as ex:
            fails.append("raised %s: %s" % (type(ex).__name__, str(ex)[:80]))
        finally:
            s.cleanup()
        if not fails:
            return {"status": "ok", "schedule_len": len(s.log)}
        return {"status": "cex", "failing": fails[:2], "cex": dict(meta, schedule=[list(x) for x in s.log])}
    return path


def replay_export(c):
    import os
    import shutil
    import tempfile
    import wave as _wave
    mods = thr.load_real()
    data = thr.tagged_audio(LONG["K"], LONG["SPW"])
    tmp = tempfile.mkdtemp(prefix="sxv-c13-")
    cwd = os.getcwd()
    os.chdir(tmp)
    s = S.Sched(None, max_timeouts=50, max_preempt=10 ** 6)
    s.max_steps = 50 * LONG["K"] + 5000
    s.script = [tuple(x) for x in c["schedule"]]
    fails = []
    try:
        if c["fmt"] != "wav":
            for nm in ("long.%s.wav" % c["fmt"], "longjoin.%s.wav" % c["fmt"]):
                with _wave.open(nm, "wb") as f:
                    f.setframerate(thr.SR)
                    f.setsampwidth(thr.SW)
                    f.setnchannels(thr.CH)
                    f.writeframes(b"\1\2" * 25)
        try:
            names, dets = run_export(mods, s, data, c["fmt"], c["joiner"])
            want = export_expect(data, dets)
            for nm, w in zip(names, want):
                if c["fmt"] == "wav":
                    with _wave.open(nm, "rb") as f:
                        got = f.readframes(-1)
                else:
                    got = open(nm, "rb").read()
                if got != w:
                    fails.append("exported file %s holds %d bytes, expected %d (stream of %d frames)" % (nm, len(got), len(w), len(data) // thr.BPS))
        except (S.Outcome, S.ThreadCrashed) as ex:
            fails.append(str(ex))
        except Exception as ex:
            fails.append("raised %s: %s" % (type(ex).__name__, str(ex)[:80]))
        finally:
            s.cleanup()
    finally:
        os.chdir(cwd)
        shutil.rmtree(tmp, ignore_errors=True)
    if not fails:
        return []
    return [("C13: exported %s file of a long stream wrong" % c["fmt"], fails[0])]


# ------------------------------------------------------------------ the saver on symbolic audio *content*
def seq_bytes(v):
    """bytes of a z3 sequence-of-bit-vector value"""
    if z3.is_app(v):
        k = v.decl().kind()
        if k == z3.Z3_OP_SEQ_UNIT:
            c = v.arg(0)
            return bytes([c.as_long()]) if z3.is_bv_value(c) else b"\0"
        if k == z3.Z3_OP_SEQ_CONCAT:
            return b"".join(seq_bytes(v.arg(i)) for i in range(v.num_args()))
        if k == z3.Z3_OP_SEQ_EMPTY:
            return b""
    try:
        return v.as_string().encode("latin-1")
    except Exception:
        return b""


def drive_saver(mods, s, data, block_dur, cache_sec, K):
    """the main thread plays the tokenizer: K+1 reads through the saver, then waits for the writer thread"""
    W, util = mods["workers"], mods["util"]
    reader = util.AudioReader(data, block_dur=block_dur, sr=10, sw=1, ch=1)
    saver = W.StreamSaverWorker(reader, filename="sym.wav", export_format=None, cache_size_sec=cache_sec)
    saver.start()
    reader.open()
    blocks = []
    for _ in range(K + 1):
        b = saver.read()
        if b is None:
            break
        blocks.append(b)
    saver.join()
    thr.neutralise([saver])
    return blocks


def symbolic_saver_harness(L, K):
    """every byte of the audio, the block size and the cache threshold are symbolic: whatever the blocks *contain*, the file
    holds exactly the blocks read"""
    from ..values import SymBytes, bytes_eq_formula, lift

    def path(e):
        s = S.Sched(e, max_timeouts=0, max_preempt=0)
        fs = iostub.FS()
        iostub.install(L, fs)
        D, data = byt.sym_audio(e, "D", 1)
        n, B, cb = D.nsamples, I("B"), I("cache_bytes")
        e.assume(z3.And(B >= 1, B <= 64, n <= K * B, cb >= 0))
        meta = dict(what="symbolic-content", K=K)
        e.add(D.axiom())

        def mkc(m):
            c = dict(meta, n=byt.iv(m, n), B=byt.iv(m, B), cache_bytes=byt.iv(m, cb), schedule=[list(x) for x in s.log])
            raw = seq_bytes(m.eval(D.seq, model_completion=True))
            c["audio"] = list((raw + bytes(c["n"]))[:c["n"]])
            return c
        fails, conds = [], {}
        try:
            blocks = drive_saver(L.modules, s, data, SymRat(B, 10), SymRat(cb, 10), K)
            ent = fs.files.get("sym.wav")
            if ent is None:
                fails.append("stream file not written")
            else:
                want = SymBytes([])
                for b in blocks:
                    want = want + lift(b)
                conds["saved stream holds exactly the blocks read"] = bytes_eq_formula(lift(ent.data), want)
                conds["header and closing"] = (ent.rate, ent.width, ent.channels) == (10, 1, 1) and bool(getattr(ent, "finalised", False))
        except (S.Outcome, S.ThreadCrashed) as ex:
            fails.append(str(ex))
        finally:
            s.cleanup()
        if fails:
            m = e.model()
            return {"status": "cex", "failing": fails[:2], "cex": mkc(m) if m is not None else None}
        return tok.discharge(e, conds, mkc)
    return path


def replay_symbolic(c):
    import os
    import shutil
    import tempfile
    import wave as _wave
    mods = thr.load_real()
    data = bytes(c["audio"])
    tmp = tempfile.mkdtemp(prefix="sxv-c13-")
    cwd = os.getcwd()
    os.chdir(tmp)
    s = S.Sched(None, max_timeouts=50, max_preempt=10 ** 6)
    s.script = [tuple(x) for x in c["schedule"]]
    fails = []
    try:
        try:
            blocks = drive_saver(mods, s, data, c["B"] / 10, c["cache_bytes"] / 10, c["K"])
            with _wave.open("sym.wav", "rb") as f:
                got = f.readframes(-1)
            if got != b"".join(blocks):
                fails.append("saved stream holds %d bytes, the blocks read hold %d" % (len(got), sum(map(len, blocks))))
        except (S.Outcome, S.ThreadCrashed) as ex:
            fails.append(str(ex))
        except Exception as ex:
            fails.append("raised %s: %s" % (type(ex).__name__, str(ex)[:80]))
        finally:
            s.cleanup()
    finally:
        os.chdir(cwd)
        shutil.rmtree(tmp, ignore_errors=True)
    if not fails:
        return []
    return [("C13: saved stream wrong for particular audio content", "audio %r in blocks of %d, cache %d bytes: %s" % (data, c["B"], c["cache_bytes"], fails[0]))]


def mk(m, meta, s, cb):
    c = dict(meta)
    c["valid"] = thr.bits_from_model(m, meta["K"]) if m is not None else [False] * meta["K"]
    c["cache_bytes"] = m.eval(cb, model_completion=True).as_long() if m is not None else 0
    c["schedule"] = [list(x) for x in s.log]
    return c


def replay_fn(c):
    import os
    import shutil
    import tempfile
    import wave as _wave
    if c.get("what") == "export":
        return replay_export(c)
    if c.get("what") == "symbolic-content":
        return replay_symbolic(c)
    mods = thr.load_real()
    core = mods["core"]
    K = c["K"]
    data = thr.tagged_audio(K)
    # real wave files in a temp dir: redirect the names used by the harness
    tmp = tempfile.mkdtemp(prefix="sxv-c13-")
    cwd = os.getcwd()
    os.chdir(tmp)
    s = S.Sched(None, max_timeouts=c["to"] + 50, max_preempt=10 ** 6)
    s.yield_on_start = "late" in c["what"]
    s.script = [tuple(x) for x in c["schedule"]]
    err = obs = None
    skw = dict(thr.SPLIT_KW, max_silence=0) if c.get("sil0") else thr.SPLIT_KW
    try:
        try:
            obs = run_once(mods, None, s, c["what"], K, data, thr.concrete_validator(data, c["valid"]), c["cache_bytes"] / (thr.SR * thr.BPS),
                           c["silq"] / (4 * thr.SR), None, skw)
        except (S.Outcome, S.ThreadCrashed) as ex:
            err = str(ex)
        finally:
            s.cleanup()

        class FS:
            files = {}
        fs = FS()
        for nm in os.listdir(tmp):
            try:
                with _wave.open(os.path.join(tmp, nm), "rb") as w:
                    ent = iostub.WavEntry(w.readframes(-1), w.getframerate(), w.getsampwidth(), w.getnchannels())
                    ent.finalised = True
                    fs.files[nm] = ent
            except Exception:
                ent = iostub.WavEntry(b"", None, None, None)
                ent.finalised = False
                fs.files[nm] = ent
        regs = sig(list(core.split(data, sr=thr.SR, sw=thr.SW, ch=thr.CH, analysis_window=0.1, validator=thr.concrete_validator(data, c["valid"]), **skw)))
        joined = None
        if "joiner" in c["what"]:
            j = core.split_and_join_with_silence(data, c["silq"] / (4 * thr.SR), sr=thr.SR, sw=thr.SW, ch=thr.CH, analysis_window=0.1,
                                                 validator=thr.concrete_validator(data, c["valid"]), **skw)
            joined = None if j is None else j.data
        fails = [err] if err else judge(c["what"], obs, fs, regs, joined, b"\0" * (round(c["silq"] / 4) * thr.BPS))
    finally:
        os.chdir(cwd)
        shutil.rmtree(tmp, ignore_errors=True)
    if not fails:
        return []
    part = "saved stream" if "stream" in fails[0] else "joined events" if "join" in fails[0] else "detection files" if ("file" in fails[0] or "detection" in fails[0]) else "workers"
    return [("C13: %s wrong" % part if not err else "C13: deadlock or crash",
             "%s, windows %s, cache %d bytes, schedule %s: %s" % (c["what"], tok.stream_str(c["valid"]), c["cache_bytes"], compact(c["schedule"]), fails[0]))]


def replay(c):
    f = replay_fn(c)
    return (bool(f), f[0][1] if f else "property holds on the real code for this schedule")


def run(rep):
    tok.VALIDATE[0] = replay_fn
    L = thr.load()
    rep.hashes = L.hashes
    cfgs = BOUNDS[rep.tier]
    rep.bounds = {"configurations": cfgs,
                  "meaning": "K one-sample windows with symbolic activity bits; symbolic cache threshold in bytes (any non-negative integer); silence of 1/4, 3/4 or 5/4 sample; pre-emption / time-out bounds as in C12"}
    rep.explanation = ("Real StreamSaverWorker / AudioEventsJoinerWorker / RegionSaverWorker with the TokenizerWorker as real threads under the "
                       "baton scheduler, writing through wave/open stubs; per schedule the files are compared with the blocks the reader produced, "
                       "with split_and_join_with_silence() and with the detections.")
    rep.assumptions = ["as C12", "wave/open stubs record what is written; replays use real wav files"]
    rep.outside = ["export formats needing ffmpeg/sox", "more windows or pre-emptions than stated"]
    for cf in cfgs:
        hn = "sched[%s,K=%d,pre=%d,to=%d%s]" % (cf["what"], cf["K"], cf["pre"], cf["to"], ",max_silence=0" if cf.get("sil0") else "")
        ex = explore(harness(L, cf["what"], cf["K"], cf["pre"], cf["to"], cf.get("sil0", False)), max_decisions=3000, path_wall_s=30)
        rep.add_exploration(hn, ex, bounds=cf)
        tok.handle_cex(rep, hn, ex, replay_fn)
    rep.bounds["symbolic content"] = "stream saver alone, main thread reading: <= 2 (thorough 3) blocks of 1..64 one-byte samples, every byte, the block size and the cache threshold symbolic; no pre-emption"
    hn = "saver on symbolic content[K=%d]" % (2 if rep.tier == "quick" else 3)
    ex = explore(symbolic_saver_harness(L, 2 if rep.tier == "quick" else 3), max_decisions=3000, path_wall_s=120, timeout_ms=60000)
    rep.add_exploration(hn, ex)
    tok.handle_cex(rep, hn, ex, replay_fn)
    rep.bounds["long streams"] = "a concrete, entirely active stream of %d windows of %d samples saved, joined and exported as raw and as wav (no pre-emption, no time-out); for raw, stale files sit under the names of the temporary wav files" % (LONG["K"], LONG["SPW"])
    for fmt, joiner in (("raw", True), ("wav", False)) if rep.tier == "quick" else (("raw", True), ("wav", True), ("raw", False)):
        hn = "export[%s%s,%d frames]" % (fmt, ",joiner" if joiner else "", LONG["K"] * LONG["SPW"])
        ex = explore(export_harness(L, fmt, joiner), max_decisions=3000, path_wall_s=60)
        rep.add_exploration(hn, ex)
        tok.handle_cex(rep, hn, ex, replay_fn)
