"""C18 - audio survives save/load unchanged; load(skip, max_read) equals slicing; numpy export.
D-shape through the in-memory file / wave stubs; byte sequences and lengths symbolic and unbounded."""
import fractions
import os
import shutil
import tempfile
from pathlib import Path

import z3

from ..engine import explore, S
from ..values import SymBytes, SymInt, SymRat, Placeholder, slice_goal, bytes_eq_formula, lift, toint, tobool
from ..stubs import iostub
from .. import loader
from . import byt, tok

I = z3.Int

# (file name, explicit audio_format, expected container)
NAMES = [("out.wav", None, "wav"), ("out.raw", None, "raw"), ("OUT.WAV", None, "wav"), ("noext", None, "raw"),
         ("out.v2/noext", None, "raw"), ("out.v2/take.wav", None, "wav"), ("x.bin", "wave", "wav"), ("x.wav", "raw", "raw"), ("y.dat", "WAV", "wav"), ("y.RAW", None, "raw")]


def roundtrip_harness(L, sw, ch, sr, name, fmt, container, lazy, via):
    core, iom = L.modules["core"], L.modules["io"]
    bps = sw * ch

    def path(e):
        D, data = byt.sym_audio(e, "D", bps)
        fs = iostub.FS()
        iostub.install(L, fs)
        meta = dict(kind="roundtrip", name=name, fmt=fmt, container=container, lazy=lazy, via=via, sw=sw, ch=ch, sr=sr)
        syms = {"n": D.nsamples}
        conds = {}
        try:
            reg = core.AudioRegion(data, sr, sw, ch)
            if via == "save":
                ret = reg.save(name, audio_format=fmt)
                conds["save returns the file name"] = ret == name
            elif via == "save-path":
                reg.save(Path(name), audio_format=fmt)
            else:
                iom.to_file(data, name, audio_format=fmt, sr=sr, sw=sw, ch=ch)
            ent = fs.files.get(name)
            conds["file written in the expected container"] = isinstance(ent, iostub.WavEntry if container == "wav" else iostub.RawEntry)
            conds["no handle left open"] = fs.open_handles == 0
            kw = {}
            if container == "raw":
                kw = dict(sr=sr, sw=sw, ch=ch)
            if fmt is not None:
                kw["audio_format"] = fmt
            elif container == "raw" and "." not in os.path.basename(name):
                kw["audio_format"] = "raw"
            if lazy:
                kw["large_file"] = True
            back = core.load(name, **kw)
            conds["bytes identical"] = bytes_eq_formula(lift(back.data), lift(data))
            conds["parameters identical"] = (back.sampling_rate, back.sample_width, back.channels) == (sr, sw, ch)
            src = iom.from_file(name, **kw)
            src.open()
            got = src.read(None)
            src.close()
            conds["from_file reads the same bytes"] = bytes_eq_formula(lift(got if got is not None else b""), lift(data))
            conds["handles closed after load"] = fs.open_handles == 0
        except Exception as ex:
            return now(e, "raised %s: %s" % (type(ex).__name__, str(ex)[:80]), syms, meta)
        return tok.discharge(e, conds, lambda m: mk(m, syms, meta))
    return path


def name_harness(L):
    """{start}/{end}/{duration} placeholders; exists_ok=False refuses to overwrite and writes nothing"""
    core = L.modules["core"]

    def path(e):
        D, data = byt.sym_audio(e, "D", 2)
        p = I("p")
        e.assume(z3.And(p >= 0, D.nsamples >= 1))
        fs = iostub.FS()
        iostub.install(L, fs)
        meta = dict(kind="name", sw=2, ch=1, sr=10)
        syms = {"n": D.nsamples, "p": p}
        conds = {}
        try:
            reg = core.AudioRegion(data, 10, 2, 1, start=SymRat(p, 1000))
            Placeholder.registry.clear()
            ret = reg.save("ev_{start:.3f}_{end:.2f}_{duration}.wav")
            toks = list(Placeholder.registry.values())
            byspec = {t.spec: t for t in toks}
            expect = "ev_%s_%s_%s.wav" % tuple(str.__str__(byspec[s]) if s in byspec else "?" for s in (".3f", ".2f", ""))
            conds["name follows the template"] = ret == expect and ret in fs.files
            if ".3f" in byspec and ".2f" in byspec and "" in byspec:
                conds["{start} is the region start"] = SymRat.of(byspec[".3f"].value).eqz(SymRat(p, 1000))
                conds["{end} is the region end"] = SymRat.of(byspec[".2f"].value).eqz(SymRat(p, 1000) + SymRat(D.nsamples, 10))
                conds["{duration} is the region duration"] = SymRat.of(byspec[""].value).eqz(SymRat(D.nsamples, 10))
            else:
                conds["all three placeholders filled"] = False
            # refuse to overwrite
            fs2_before = dict(fs.files)
            log_before = len(fs.log)
            try:
                reg.save(ret, exists_ok=False)
                conds["exists_ok=False refuses an existing file"] = False
            except FileExistsError:
                conds["nothing written on refusal"] = len(fs.log) == log_before and fs.files.keys() == fs2_before.keys()
            try:
                reg.save("ev_{start:.3f}_{end:.2f}_{duration}.wav", exists_ok=False)
                conds["exists_ok=False refuses when the formatted name exists"] = False
            except FileExistsError:
                conds["nothing written on refusal (template)"] = len(fs.log) == log_before
            try:
                # a region without start/end still fills {duration}
                plain = core.AudioRegion(data, 10, 2, 1)
                Placeholder.registry.clear()
                ret2 = plain.save("d_{duration:.3f}.wav")
                t2 = [t for t in Placeholder.registry.values() if t.spec == ".3f"]
                conds["{duration} filled for a region without start"] = len(t2) == 1 and ret2 == "d_%s.wav" % str.__str__(t2[0]) and ret2 in fs.files
                if len(t2) == 1:
                    conds["{duration} value (region without start)"] = SymRat.of(t2[0].value).eqz(SymRat(D.nsamples, 10))
            except Exception:
                conds["{duration} filled for a region without start"] = False
            try:
                reg.save("fresh.wav", exists_ok=False)
                conds["exists_ok=False writes a new file"] = "fresh.wav" in fs.files
            except Exception:
                conds["exists_ok=False writes a new file"] = False
        except Exception as ex:
            return now(e, "raised %s: %s" % (type(ex).__name__, str(ex)[:80]), syms, meta)
        return tok.discharge(e, conds, lambda m: mk(m, syms, meta))
    return path


def load_harness(L, sw, ch, sr, inp, lazy, skip_kind, mr_kind):
    """load(x, skip=s, max_read=m) == full[round(s*rate) : round(s*rate) + round(m*rate)]; s, m in quarter samples"""
    core = L.modules["core"]
    bps = sw * ch

    def path(e):
        D, data = byt.sym_audio(e, "D", bps)
        n = D.nsamples
        fs = iostub.FS()
        iostub.install(L, fs)
        ps, pm = I("ps"), I("pm")
        meta = dict(kind="load", inp=inp, lazy=lazy, skip_kind=skip_kind, mr_kind=mr_kind, sw=sw, ch=ch, sr=sr)
        syms = {"n": n}
        kw = {}
        if skip_kind == "sym":
            e.assume(ps >= 0)
            kw["skip"] = SymRat(ps, 4 * sr)
            syms["ps"] = ps
        if mr_kind == "sym":
            kw["max_read"] = SymRat(pm, 4 * sr)
            syms["pm"] = pm
        elif mr_kind == "none":
            kw["max_read"] = None
        if inp == "bytes":
            x = data
            kw.update(sr=sr, sw=sw, ch=ch)
        elif inp == "raw":
            fs.files["in.raw"] = iostub.RawEntry(data)
            x = "in.raw"
            kw.update(sr=sr, sw=sw, ch=ch)
        else:
            fs.files["in.wav"] = iostub.WavEntry(data, sr, sw, ch)
            x = "in.wav"
        if lazy:
            kw["large_file"] = True

        def rhe(p):
            """round-half-even(p/4) as an LIA term via fresh variables"""
            a, b, c, d = e.fresh("a"), e.fresh("b"), e.fresh("c"), e.fresh("d")
            e.add(z3.And(p == 4 * a + b, b >= 0, b < 4, a == 2 * c + d, d >= 0, d < 2))
            return z3.If(b <= 1, a, z3.If(b == 3, a + 1, z3.If(d == 0, a, a + 1)))
        try:
            reg = core.load(x, **kw)
        except Exception as ex:
            return now(e, "raised %s: %s" % (type(ex).__name__, str(ex)[:80]), syms, meta)
        lo = rhe(ps) if skip_kind == "sym" else z3.IntVal(0)
        lo_c = z3.If(lo > n, n, lo)
        if mr_kind == "sym":
            cnt = rhe(pm)
            hi = z3.If(pm < 0, n, z3.If(lo_c + cnt > n, n, lo_c + cnt))
        else:
            hi = n
        conds = {"bytes = full[round(skip*rate) : round(skip*rate)+round(max_read*rate)]": slice_goal(reg.data, D, lo_c * bps, hi * bps),
                 "parameters": (reg.sampling_rate, reg.sample_width, reg.channels) == (sr, sw, ch),
                 "handles closed": fs.open_handles == 0}
        return tok.discharge(e, conds, lambda m: mk(m, syms, meta))
    return path


def now(e, why, syms, meta):
    m = e.model()
    if m is None:
        return {"status": "unknown", "why": why}
    return {"status": "cex", "failing": [why], "cex": mk(m, syms, meta)}


def mk(m, syms, meta):
    c = dict(meta)
    for k, t in syms.items():
        c[k] = byt.iv(m, t)
    return c


# ------------------------------------------------------------------ replay
def replay_fn(c):
    ak = loader.real_auditok()
    import wave as _wave
    from auditok import io as rio
    sw, ch, sr = c["sw"], c["ch"], c["sr"]
    bps = sw * ch
    n = c["n"]
    data = byt.concrete_bytes(n * bps)
    tmp = tempfile.mkdtemp(prefix="sxv-c18-")
    try:
        if c["kind"] == "roundtrip":
            name = os.path.join(tmp, c["name"])
            os.makedirs(os.path.dirname(name), exist_ok=True)
            reg = ak.AudioRegion(data, sr, sw, ch)
            desc = "%d-sample region (sw=%d ch=%d sr=%d) saved as %r (audio_format=%r) via %s, loaded %s" % (
                n, sw, ch, sr, c["name"], c["fmt"], c["via"], "lazily" if c["lazy"] else "eagerly")
            if c["via"] == "save":
                reg.save(name, audio_format=c["fmt"])
            elif c["via"] == "save-path":
                reg.save(Path(name), audio_format=c["fmt"])
            else:
                rio.to_file(data, name, audio_format=c["fmt"], sr=sr, sw=sw, ch=ch)
            raw = open(name, "rb").read()
            is_wav = raw[:4] == b"RIFF"
            if is_wav != (c["container"] == "wav"):
                return [("C18: file written in the wrong container", desc + ": %s" % ("wav" if is_wav else "raw"))]
            kw = dict(sr=sr, sw=sw, ch=ch) if c["container"] == "raw" else {}
            if c["fmt"] is not None:
                kw["audio_format"] = c["fmt"]
            elif c["container"] == "raw" and "." not in os.path.basename(c["name"]):
                kw["audio_format"] = "raw"
            if c["lazy"]:
                kw["large_file"] = True
            back = ak.load(name, **kw)
            if back.data != data or (back.sr, back.sw, back.ch) != (sr, sw, ch):
                return [("C18: save/load round trip changes the audio", desc + ": %d bytes back, parameters %s" % (len(back.data), (back.sr, back.sw, back.ch)))]
            return []
        if c["kind"] == "name":
            start = c["p"] / 1000
            reg = ak.AudioRegion(data, 10, 2, 1, start=start)
            tpl = os.path.join(tmp, "ev_{start:.3f}_{end:.2f}_{duration}.wav")
            ret = reg.save(tpl)
            want = tpl.format(start=start, end=start + n / 10, duration=n / 10)
            if os.path.basename(ret) != os.path.basename(want) and abs(reg.end - (start + n / 10)) < 1e-9:
                return [("C18: file name placeholders not filled from the region", "%s instead of %s" % (ret, want))]
            if not os.path.exists(ret):
                return [("C18: save did not write the file it names", ret)]
            before = open(ret, "rb").read()
            try:
                ak.AudioRegion(b"\1\2" * (n + 1), 10, 2, 1).save(ret, exists_ok=False)
                return [("C18: exists_ok=False overwrites an existing file", ret)]
            except FileExistsError:
                if open(ret, "rb").read() != before:
                    return [("C18: exists_ok=False refused but modified the file", ret)]
            try:
                reg.save(tpl, exists_ok=False)
                return [("C18: exists_ok=False overwrites when the name comes from a template", ret)]
            except FileExistsError:
                pass
            plain = ak.AudioRegion(data, 10, 2, 1)
            ret2 = plain.save(os.path.join(tmp, "d_{duration:.3f}.wav"))
            if os.path.basename(ret2) != "d_%.3f.wav" % (n / 10) or not os.path.exists(ret2):
                return [("C18: {duration} not filled in the file name of a region without start", ret2)]
            try:
                ak.AudioRegion(b"\1\2", 10, 2, 1).save(Path(ret), exists_ok=False)
                return [("C18: exists_ok=False overwrites an existing Path", ret)]
            except FileExistsError:
                pass
            return []
        if c["kind"] == "load":
            kw = {}
            lo = 0
            if c["skip_kind"] == "sym":
                kw["skip"] = c["ps"] / (4 * sr)
                lo = round(fractions.Fraction(c["ps"], 4))
                if round(kw["skip"] * sr) != lo:
                    return []
            hi = n
            lo_c = min(lo, n)
            if c["mr_kind"] == "sym":
                kw["max_read"] = c["pm"] / (4 * sr)
                cnt = round(fractions.Fraction(c["pm"], 4))
                if c["pm"] >= 0 and round(kw["max_read"] * sr) != cnt:
                    return []
                hi = n if c["pm"] < 0 else min(n, lo_c + cnt)
            elif c["mr_kind"] == "none":
                kw["max_read"] = None
            if c["inp"] == "bytes":
                x = data
                kw.update(sr=sr, sw=sw, ch=ch)
            elif c["inp"] == "raw":
                x = os.path.join(tmp, "in.raw")
                open(x, "wb").write(data)
                kw.update(sr=sr, sw=sw, ch=ch)
            else:
                x = os.path.join(tmp, "in.wav")
                with _wave.open(x, "wb") as w:
                    w.setframerate(sr)
                    w.setsampwidth(sw)
                    w.setnchannels(ch)
                    w.writeframes(data)
            if c["lazy"]:
                kw["large_file"] = True
            desc = "load(%s of %d samples, sw=%d ch=%d sr=%d, %s)" % (c["inp"], n, sw, ch, sr, {k: v for k, v in kw.items() if k in ("skip", "max_read", "large_file")})
            try:
                reg = ak.load(x, **kw)
            except Exception as ex:
                empty = lo_c * bps >= hi * bps
                key = "C18: load raises %s instead of returning an empty region" % type(ex).__name__ if empty else "C18: load raises %s" % type(ex).__name__
                return [(key, desc + ": %s" % ex)]
            want = data[lo_c * bps:hi * bps]
            if reg.data != want:
                return [("C18: load(skip, max_read) differs from slicing the full audio", desc + ": %d bytes, expected samples [%d,%d)" % (len(reg.data), lo_c, hi))]
            return []
        if c["kind"] == "numpy":
            from . import c07
            return c07.replay_numpy(c)
    except Exception as ex:
        return [("C18: %s raises %s" % (c["kind"], type(ex).__name__), "%s: %s" % (c, ex))]
    finally:
        shutil.rmtree(tmp, ignore_errors=True)
    return []


def replay(c):
    f = replay_fn(c)
    return (bool(f), f[0][1] if f else "property holds on the real code for this input")


def run(rep):
    tok.VALIDATE[0] = replay_fn
    L = loader.load()
    rep.hashes = L.hashes
    tier = rep.tier
    quick = tier == "quick"
    fm = byt.fmts(tier)[:2] if quick else byt.fmts(tier)[::2]
    rep.bounds = {"round trip": "region length unbounded; names/formats %s; eager and lazy; save(), save(Path), to_file()" % [(a, b) for a, b, _ in NAMES],
                  "load": "skip = ps/4 samples (ps >= 0 unbounded), max_read = pm/4 samples (pm unbounded of either sign), None, omitted; bytes / raw file / wav file, eager and lazy; n unbounded",
                  "formats": "%s" % fm}
    rep.explanation = ("Real AudioRegion.save/to_file/_save_raw/_save_wave and load/_read_offline/get_audio_source/from_file/_load_raw/_load_wave "
                       "executed through in-memory open()/wave stubs holding symbolic byte sequences; z3 proves the loaded bytes equal the saved "
                       "ones and that load(skip,max_read) is the stated slice for all lengths and quarter-sample durations.")
    rep.assumptions = ["I/O stubs (DESIGN §8.2): what is written is what is read back; the real wave module and OS are exercised in replays only",
                       "skip/max_read as exact rationals p/(4*rate)"]
    rep.outside = ["pydub formats", "microphone input", "numpy export beyond 3 samples per channel"]

    def go(hn, fn, ideal=False, workers=4, probe=None):
        ex = explore(fn, workers=workers)
        if probe is not None:
            for r in ex.results:
                if r["status"] == "unsupported":
                    # the code left the modelled fragment (e.g. it looks at individual bytes): a concrete instance of this
                    # configuration is replayed on the real code so that an outright wrong round trip is still reported
                    # (a replayed fact; it adds nothing to the solver claim, which stays INCONCLUSIVE for this harness)
                    rep.notes.append("%s left the modelled fragment (%s); probed concretely" % (hn, r.get("why")))
                    r["status"] = "cex"
                    r["failing"] = ["unsupported by the byte model: %s" % r.get("why")]
                    r["cex"] = dict(probe)
                    rep.inconclusive.append("%s: the code left the modelled fragment (%s): not covered by the claim; concrete probe only" % (hn, r.get("why")))
        rep.add_exploration(hn, ex)
        tok.handle_cex(rep, hn, ex, replay_fn, ideal=ideal)
    for i, (sw, ch) in enumerate(fm):
        for (name, fmt, cont) in (NAMES if i == 0 else NAMES[:2]):
            for lazy in (False, True):
                for via in (("save", "to_file", "save-path") if (i == 0 and name in ("out.wav", "out.raw")) else ("save",)):
                    go("roundtrip[sw=%d,ch=%d,%s,%s,%s,%s]" % (sw, ch, name, fmt, "lazy" if lazy else "eager", via),
                       roundtrip_harness(L, sw, ch, 10, name, fmt, cont, lazy, via), workers=1,
                       probe=dict(kind="roundtrip", name=name, fmt=fmt, container=cont, lazy=lazy, via=via, sw=sw, ch=ch, sr=10, n=5))
    go("names", name_harness(L), workers=1)
    for i, (sw, ch) in enumerate(fm):
        for inp in ("bytes", "raw", "wav"):
            for lazy in ((False, True) if inp != "bytes" else (False,)):
                for sk, mk_ in (("sym", "sym"), ("sym", "none"), ("none", "sym"), ("sym", "omit")):
                    if i > 0 and (sk, mk_) != ("sym", "sym"):
                        continue
                    go("load[sw=%d,ch=%d,%s,%s,skip=%s,max_read=%s]" % (sw, ch, inp, "lazy" if lazy else "eager", sk, mk_),
                       load_harness(L, sw, ch, 10, inp, lazy, sk, mk_), ideal=True)
    try:
        from . import c07
        c07.run_c18(rep)
    except (ImportError, AttributeError):
        rep.notes.append("numpy export: not built")
