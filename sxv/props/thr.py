"""Shared harness pieces for the worker-thread properties C12-C14: the real workers module loaded over the cooperative
scheduler, position-tagged concrete audio, symbolic per-window activity, a wave write stub."""
import z3

from ..engine import Engine, explore
from ..values import SymBool, SymInt, SymRat
from ..stubs import sched as S, iostub
from .. import loader

SR, SW, CH = 10, 2, 1
BPS = SW * CH
NAMES = ("exceptions", "io", "signal", "plotting", "util", "core", "workers")


def load():
    L = loader.load(NAMES, import_map=S.modules())
    no_finalisers(L.modules["workers"])
    return L


def no_finalisers(W):
    """AudioDataSaverWorker.__del__ drains its inbox and closes its file when the object is collected - at a moment the
    garbage collector chooses, possibly in the middle of another scheduled run.  Finalisers are outside every property; they
    are switched off in the loaded copy."""
    try:
        W.AudioDataSaverWorker.__del__ = lambda self: None
    except AttributeError:
        pass


def tagged_audio(K, samples_per_window=1):
    n = K * samples_per_window
    return bytes((i * 7 + 3) % 251 for i in range(n * BPS))


def mkvalidator(spw=1):
    """decision of window k is the symbolic bit v_k; windows are identified by their (position-tagged) content"""
    def validator(frame):
        first = frame[0]
        k = next(i for i in range(64) if (i * spw * BPS * 7 + 3) % 251 == first) if False else None
        return SymBool(z3.Bool("v%d" % validator.index(frame)))
    table = {}

    def index(frame):
        return table.setdefault(bytes(frame), len(table))
    validator.index = index
    validator.table = table
    return validator


def window_validator(data, spw=1):
    """window k of `data` -> Bool v_k (content-addressed so that every run on the same audio sees the same decisions)"""
    size = spw * BPS
    pos = {}
    for k in range(0, len(data), size):
        pos.setdefault(data[k:k + size], k // size)

    def validator(frame):
        k = pos.get(bytes(frame))
        if k is None:
            # a block that is not a window of the input (only possible when the code under test mangles blocks)
            k = 900 + (len(frame) % 50)
        return SymBool(z3.Bool("v%d" % k))
    return validator


def bits_from_model(m, K):
    return [bool(z3.is_true(m.eval(z3.Bool("v%d" % k), model_completion=True))) for k in range(K)]


SPLIT_KW = dict(min_dur=0.1, max_dur=0.3, max_silence=0.1)


class Recording:
    """mixin for a recording observer built on the loaded Worker class"""


def make_observer_class(W):
    class Obs(W.Worker):
        def __init__(self, timeout=0.2):
            self.got = []
            super().__init__(timeout=timeout)

        def _process_message(self, message):
            self.got.append(message)
    return Obs


def neutralise(workers):
    """AudioDataSaverWorker.__del__ calls _post_process(): make it inert before the objects are dropped"""
    for w in workers:
        try:
            w._post_process = lambda: None
        except Exception:
            pass


def concrete_validator(data, valid, spw=1):
    size = spw * BPS
    pos = {}
    for k in range(0, len(data), size):
        pos.setdefault(data[k:k + size], k // size)

    def validator(frame):
        k = pos.get(bytes(frame))
        return bool(valid[k]) if k is not None and k < len(valid) else False
    return validator


def load_real_cli():
    return load_real(cli=True)


def load_real(cli=False):
    """the unmodified source of /repo loaded over the cooperative scheduler, without the proxy AST pass: used for replay.
    (threads cannot be driven through a fixed schedule with the real threading module)"""
    import ast
    import os
    import sys
    import types
    imap = S.modules()
    if cli:
        imap["time"] = S.time_module()
    root = loader.REPO
    pkgname = "rxauditok"
    pkg = types.ModuleType(pkgname)
    pkg.__path__ = []
    sys.modules[pkgname] = pkg
    mods = {}
    for n in loader.MODULE_ORDER:
        if n not in NAMES + (("cmdline_util", "cmdline") if cli else ("cmdline_util",)):
            continue
        path = os.path.join(root, "auditok", n + ".py")
        tree = ast.parse(open(path).read(), path)
        if n in ("workers", "cmdline_util", "cmdline"):
            for node in ast.walk(tree):
                if isinstance(node, ast.ImportFrom) and node.level == 0 and node.module in imap:
                    node.module = imap[node.module]
                if isinstance(node, ast.ImportFrom) and node.level == 0 and node.module == "auditok":
                    node.module = pkgname
                if isinstance(node, ast.Import):
                    for a in node.names:
                        if a.name in imap:
                            a.asname = a.asname or a.name
                            a.name = imap[a.name]
        if n == "cmdline":
            for k in ("AudioRegion",):
                setattr(pkg, k, getattr(mods["core"], k))
            pkg.__version__ = "replay"
        m = types.ModuleType(pkgname + "." + n)
        m.__package__ = pkgname
        m.__file__ = path
        sys.modules[pkgname + "." + n] = m
        setattr(pkg, n, m)
        exec(compile(tree, path, "exec"), m.__dict__)
        mods[n] = m
    no_finalisers(mods["workers"])
    return mods
