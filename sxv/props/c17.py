"""C17 - region algebra: concatenate, repeat, divide, join, silence, equality, immutability.
Operands are regions over independent uninterpreted byte sequences of unbounded length; results are compared with
the byte-level concatenation by segment normalisation (LIA), falling back to z3's sequence theory."""
import dataclasses
import fractions

import z3

from ..engine import explore, S
from ..values import SymBytes, SymInt, SymRat, SymBool, Base, concat_goal, slice_goal, bytes_eq_formula, lift, toint, tobool
from .. import loader
from . import byt, tok

I = z3.Int
VARIANTS = ["same", "rate", "width", "channels", "width and channels (same frame size)"]


def other_fmt(sw, ch, sr, variant):
    if variant == "rate":
        return sw, ch, sr + 1
    if variant == "width":
        return (2 if sw != 2 else 4), ch, sr
    if variant == "channels":
        return sw, ch + 1, sr
    if variant.startswith("width and channels"):
        # two mismatches that compensate each other in the size of one multichannel sample
        if sw > 1:
            return sw // 2, ch * 2, sr
        if ch % 2 == 0:
            return sw * 2, ch // 2, sr
        return sw * 2, ch, sr       # no compensating pair exists: plain width mismatch
    return sw, ch, sr


def snapshot(r):
    return (r.data, r.sampling_rate, r.sample_width, r.channels)


def unchanged(r, snap):
    return r.data is snap[0] and (r.sampling_rate, r.sample_width, r.channels) == snap[1:]


def concat_harness(L, sw, ch, sr, op, k, variant, feed="list"):
    """op in '+', 'sum', 'join': k operands (join: k operands glued with a separator region)"""
    core = L.modules["core"]
    exc = L.modules["exceptions"]

    def path(e):
        regs, bases = [], []
        bad_at = k - 1 if variant != "same" else None
        lens = {}
        for i in range(k):
            f = other_fmt(sw, ch, sr, variant) if i == bad_at else (sw, ch, sr)
            D, data = byt.sym_audio(e, "D%d" % i, f[0] * f[1])
            lens["n%d" % i] = D.nsamples
            regs.append(core.AudioRegion(data, f[2], f[0], f[1]))
            bases.append(D)
        sep = None
        if op == "join":
            Ds, ds = byt.sym_audio(e, "SEP", sw * ch)
            lens["nsep"] = Ds.nsamples
            sep = core.AudioRegion(ds, sr, sw, ch)
        snaps = [snapshot(r) for r in regs]
        meta = dict(kind="concat", op=op, k=k, variant=variant, sw=sw, ch=ch, sr=sr, feed=feed)
        res = err = None

        def fed():
            if feed == "iter":
                return iter(regs)
            if feed == "generator":
                return (r for r in regs)
            if feed == "tuple":
                return tuple(regs)
            return list(regs)
        try:
            if op == "+":
                acc = regs[0]
                for r in regs[1:]:
                    acc = acc + r
                res = acc
            elif op == "+=":
                acc = regs[0]               # a second name for the first operand: augmented assignment must rebind, not mutate
                for r in regs[1:]:
                    acc += r
                res = acc
            elif op == "sum":
                res = sum(fed())
            else:
                res = sep.join(fed())
        except exc.AudioParameterError as ex:
            err = ex
        except Exception as ex:
            return now(e, "raised %s: %s" % (type(ex).__name__, str(ex)[:60]), lens, meta)
        conds = {}
        if variant != "same" and k >= 2:
            conds["parameter mismatch raises AudioParameterError and yields nothing"] = err is not None and res is None
        else:
            conds["no error"] = err is None
            if err is None:
                parts = []
                for i, r in enumerate(regs):
                    if i and sep is not None:
                        parts.append(sep.data)
                    parts.append(r.data)
                if k == 0:
                    conds["empty"] = (res == 0) if op == "sum" else not lift(res.data).segs
                else:
                    conds["bytes"] = concat_goal(res.data, parts)
                    conds["params"] = (res.sampling_rate, res.sample_width, res.channels) == (sr, sw, ch)
        conds["operands unchanged"] = all(unchanged(r, s) for r, s in zip(regs, snaps))
        return tok.discharge(e, conds, lambda m: mk(m, lens, meta))
    return path


def repeat_harness(L, sw, ch, sr, n, left):
    core = L.modules["core"]

    def path(e):
        D, data = byt.sym_audio(e, "D0", sw * ch)
        lens = {"n0": D.nsamples}
        meta = dict(kind="repeat", n=n if isinstance(n, int) else repr(n), left=left, sw=sw, ch=ch, sr=sr)
        reg = core.AudioRegion(data, sr, sw, ch)
        snap = snapshot(reg)
        res = err = None
        try:
            res = (n * reg) if left else (reg * n)
        except TypeError as ex:
            err = ex
        except Exception as ex:
            return now(e, "raised %s: %s" % (type(ex).__name__, str(ex)[:60]), lens, meta)
        conds = {}
        if not isinstance(n, int) or isinstance(n, bool) and False:
            conds["non-int factor raises TypeError"] = err is not None
        else:
            conds["no error"] = err is None
            if err is None:
                conds["bytes"] = concat_goal(res.data, [reg.data] * max(n, 0))
                conds["params"] = (res.sampling_rate, res.sample_width, res.channels) == (sr, sw, ch)
        conds["operand unchanged"] = unchanged(reg, snap)
        return tok.discharge(e, conds, lambda m: mk(m, lens, meta))
    return path


def silence_harness(L, sw, ch, sr, den):
    core = L.modules["core"]

    def path(e):
        p = I("p")
        e.assume(p >= 0)
        meta = dict(kind="silence", den=den, sw=sw, ch=ch, sr=sr)
        try:
            reg = core.make_silence(SymRat(p, den), sr, sw, ch)
            # same sample count asked again with other parameters: no state may leak between calls
            reg2 = core.make_silence(SymRat(p, 2 * den), 2 * sr, sw, ch)
            reg3 = core.make_silence(SymRat(p, den), sr, sw * 2 if sw < 4 else 1, ch)
        except Exception as ex:
            return now(e, "raised %s: %s" % (type(ex).__name__, str(ex)[:60]), {"p": p}, meta)
        # expected sample count = round-half-even(p*sr/den)
        x = p * sr
        f = e.fresh("f")
        e.add(z3.And(2 * f * den <= 2 * x + den, 2 * x + den < 2 * (f + 1) * den))
        par = e.fresh("par")
        h = e.fresh("h")
        e.add(z3.And(f == 2 * h + par, par >= 0, par < 2))
        cnt = z3.If(z3.And(2 * f * den == 2 * x + den, par == 1), f - 1, f)     # tie -> even
        segs = lift(reg.data).segs
        conds = {
            "length = round(d*rate)*sw*ch": lift(reg.data).length() == cnt * sw * ch,
            "all bytes zero": all(s[0] == "z" or (s[0] == "c" and set(s[1]) <= {0}) for s in segs),
            "params": (reg.sampling_rate, reg.sample_width, reg.channels) == (sr, sw, ch),
            "second call, doubled rate: params": (reg2.sampling_rate, reg2.sample_width, reg2.channels) == (2 * sr, sw, ch),
            "second call, doubled rate: length": lift(reg2.data).length() == cnt * sw * ch,
            "third call, other width: params and length": z3.And(z3.BoolVal((reg3.sampling_rate, reg3.sample_width, reg3.channels) == (sr, sw * 2 if sw < 4 else 1, ch)),
                                                                  lift(reg3.data).length() == cnt * (sw * 2 if sw < 4 else 1) * ch),
        }
        return tok.discharge(e, conds, lambda m: mk(m, {"p": p}, meta))
    return path


def divide_harness(L, sw, ch, sr, n):
    core = L.modules["core"]
    bps = sw * ch

    def path(e):
        D, data = byt.sym_audio(e, "D0", bps)
        N = D.nsamples
        lens = {"n0": N}
        meta = dict(kind="divide", n=n if isinstance(n, int) else repr(n), sw=sw, ch=ch, sr=sr)
        reg = core.AudioRegion(data, sr, sw, ch)
        snap = snapshot(reg)
        res = err = None
        try:
            res = reg / n
        except TypeError as ex:
            err = ex
        except Exception as ex:
            return now(e, "raised %s: %s" % (type(ex).__name__, str(ex)[:60]), lens, meta)
        conds = {}
        if not isinstance(n, int) or n <= 0:
            conds["non-positive or non-int divisor raises TypeError"] = err is not None
        else:
            conds["no error"] = err is None
            if err is None:
                k = len(res)
                conds["piece count = min(n, len)"] = z3.If(N < n, N, n) == k if True else None
                ls = [lift(r.data).length() for r in res]
                q = SymInt(N) // n
                for i, ln in enumerate(ls):
                    conds[("piece %d whole samples, length within one of len/n" % i)] = z3.And(
                        (SymInt(ln) % bps).t == 0, ln >= q.t * bps, ln <= (q.t + 1) * bps, ln > 0)
                if k:
                    conds["pieces concatenate to the original"] = concat_goal(data, [r.data for r in res])
                    conds["params"] = all((r.sampling_rate, r.sample_width, r.channels) == (sr, sw, ch) for r in res)
        conds["operand unchanged"] = unchanged(reg, snap)
        return tok.discharge(e, conds, lambda m: mk(m, lens, meta))
    return path


def construct_harness(L, sw, ch):
    core = L.modules["core"]
    exc = L.modules["exceptions"]
    bps = sw * ch

    def path(e):
        nb = I("nbytes")
        e.assume(nb >= 0)
        D = Base("D0", nb)
        data = SymBytes.whole(D)
        meta = dict(kind="construct", sw=sw, ch=ch, sr=10)
        r = SymInt(nb) % bps
        try:
            reg = core.AudioRegion(data, 10, sw, ch)
            goal = r.t == 0
            out = "accepted"
        except exc.AudioParameterError:
            goal = r.t != 0
            out = "rejected"
        except Exception as ex:
            return now(e, "raised %s" % type(ex).__name__, {"nbytes": nb}, meta)
        conds = {"accepted iff a whole number of samples": goal}
        if out == "accepted":
            for name in ("data", "sampling_rate", "start", "duration"):
                try:
                    setattr(reg, name, 1)
                    conds["assignment to %s raises" % name] = name == "duration" and False
                except dataclasses.FrozenInstanceError:
                    pass
                except Exception:
                    pass
            for name in ("data", "sampling_rate", "sample_width", "channels", "start"):
                try:
                    delattr(reg, name)
                    conds["deleting %s raises" % name] = False
                except Exception:
                    pass
        r_ = tok.discharge(e, conds, lambda m: mk(m, {"nbytes": nb}, meta))
        r_["outcome"] = out
        return r_
    return path


def eq_harness(L, sw, ch, sr, variant, maxlen):
    core = L.modules["core"]

    def path(e):
        D0, d0 = byt.sym_audio(e, "D0", sw * ch)
        e.assume(D0.nsamples <= maxlen)
        f = other_fmt(sw, ch, sr, variant) if variant != "same" else (sw, ch, sr)
        meta = dict(kind="eq", variant=variant, sw=sw, ch=ch, sr=sr)
        lens = {"n0": D0.nsamples}
        r0 = core.AudioRegion(d0, sr, sw, ch)
        conds = {}
        try:
            if variant == "same":
                D1, d1 = byt.sym_audio(e, "D1", sw * ch)
                e.assume(D1.nsamples <= maxlen)
                lens["n1"] = D1.nsamples
                r1 = core.AudioRegion(d1, sr, sw, ch)
                e.add(D0.axiom())
                e.add(D1.axiom())
                res = r0 == r1
                res = bool(res)
                conds["== is byte equality when parameters agree"] = (D0.seq == D1.seq) == res
                conds["reflexive"] = bool(r0 == r0)
                conds["equal to a region over the same bytes"] = bool(r0 == core.AudioRegion(d0, sr, sw, ch))
                conds["not equal to a non-region"] = not bool(r0 == 5)
                ra = core.AudioRegion(d0, sr, sw, ch, start=SymRat(I("st_a"), 1000))
                rb = core.AudioRegion(d0, sr, sw, ch, start=SymRat(I("st_b"), 1000))
                conds["start/end metadata do not take part in equality"] = bool(ra == rb) and bool(ra == r0)
            else:
                if (f[0] * f[1]) != (sw * ch):
                    # same byte string must still be a whole number of samples in the other format
                    e.assume((SymInt(D0.n) % (f[0] * f[1])).t == 0)
                r1 = core.AudioRegion(d0, f[2], f[0], f[1])
                conds["different %s => not equal" % variant] = not bool(r0 == r1)
        except Exception as ex:
            return now(e, "raised %s: %s" % (type(ex).__name__, str(ex)[:60]), lens, meta)
        return tok.discharge(e, conds, lambda m: mk(m, lens, meta))
    return path


def now(e, why, syms, meta):
    m = e.model()
    if m is None:
        return {"status": "unknown", "why": why}
    return {"status": "cex", "failing": [why], "cex": mk(m, syms, meta)}


def mk(m, syms, meta):
    c = dict(meta)
    for k, t in syms.items():
        c[k] = byt.iv(m, t)
    return c


# ------------------------------------------------------------------ replay
def replay_fn(c):
    ak = loader.real_auditok()
    from auditok.exceptions import AudioParameterError
    sw, ch, sr = c["sw"], c["ch"], c["sr"]
    bps = sw * ch
    kind = c["kind"]

    def reg(i, n, fmt=None):
        f = fmt or (sw, ch, sr)
        return ak.AudioRegion(byt.concrete_bytes(n * f[0] * f[1], tag=i + 1), f[2], f[0], f[1])
    try:
        if kind == "concat":
            k, variant, op = c["k"], c["variant"], c["op"]
            regs = [reg(i, c["n%d" % i], other_fmt(sw, ch, sr, variant) if (variant != "same" and i == k - 1) else None) for i in range(k)]
            datas = [r.data for r in regs]
            sep = reg(99, c["nsep"]) if op == "join" else None
            desc = "%s of %d regions given as %s (%s samples, last differs in %s)" % (op, k, c.get("feed", "list"), [c["n%d" % i] for i in range(k)], variant)
            try:
                if op == "+":
                    res = regs[0]
                    for r in regs[1:]:
                        res = res + r
                elif op == "+=":
                    res = regs[0]
                    for r in regs[1:]:
                        res += r
                elif op == "sum":
                    res = sum({"iter": iter, "generator": lambda x: (r for r in x), "tuple": tuple}.get(c.get("feed"), list)(regs))
                else:
                    res = sep.join({"iter": iter, "generator": lambda x: (r for r in x), "tuple": tuple}.get(c.get("feed"), list)(regs))
                err = None
            except AudioParameterError as ex:
                err, res = ex, None
            if [r.data for r in regs] != datas:
                return [("C17: %s alters an operand" % op, desc)]
            if variant != "same" and k >= 2:
                return [] if err is not None else [("C17: %s of regions with different %s does not raise" % (op, variant), desc)]
            if err is not None:
                return [("C17: %s raises for compatible regions" % op, desc + ": %s" % err)]
            if k == 0:
                return [] if (res == 0 if op == "sum" else res.data == b"") else [("C17: %s of no regions" % op, desc)]
            want = (sep.data if sep else b"").join(datas)
            if res.data != want or (res.sr, res.sw, res.ch) != (sr, sw, ch):
                return [("C17: %s result is not the byte-level concatenation" % op, desc + ": %d bytes, expected %d" % (len(res.data), len(want)))]
            return []
        if kind == "repeat":
            n = c["n"]
            r = reg(0, c["n0"])
            nn = n if isinstance(n, int) else {"2.0": 2.0, "'3'": "3", "None": None}.get(n, 2.5)
            desc = "%s-sample region %s %r" % (c["n0"], "rmul" if c["left"] else "mul", nn)
            try:
                res = nn * r if c["left"] else r * nn
            except TypeError:
                return [] if not isinstance(nn, int) else [("C17: repetition by an int raises TypeError", desc)]
            if not isinstance(nn, int):
                return [("C17: repetition by a non-int does not raise TypeError", desc)]
            if res.data != r.data * nn:
                return [("C17: repetition is not the byte-level repetition", desc + ": %d bytes" % len(res.data))]
            return []
        if kind == "silence":
            d = c["p"] / c["den"]
            if fractions.Fraction(d) != fractions.Fraction(c["p"], c["den"]):
                return []
            r = ak.make_silence(d, sr, sw, ch)
            cnt = round(fractions.Fraction(c["p"], c["den"]) * sr)
            r2 = ak.make_silence(d / 2, 2 * sr, sw, ch)
            sw3 = sw * 2 if sw < 4 else 1
            r3 = ak.make_silence(d, sr, sw3, ch)
            if (r2.sr, r2.sw, r2.ch) != (2 * sr, sw, ch) or r2.data != b"\0" * (cnt * bps) or (r3.sr, r3.sw, r3.ch) != (sr, sw3, ch) or r3.data != b"\0" * (cnt * sw3 * ch):
                return [("C17: make_silence result depends on an earlier call", "make_silence(%r, %d, %d, %d) then make_silence(%r, %d, ...) -> rate %d, %d bytes; third call width %d, %d bytes" % (d, sr, sw, ch, d / 2, 2 * sr, r2.sr, len(r2.data), r3.sw, len(r3.data)))]
            if r.data != b"\0" * (cnt * bps) or (r.sr, r.sw, r.ch) != (sr, sw, ch):
                return [("C17: make_silence length or content wrong", "make_silence(%r, %d, %d, %d) has %d bytes, expected %d zero bytes" % (d, sr, sw, ch, len(r.data), cnt * bps))]
            return []
        if kind == "divide":
            n = c["n"]
            r = reg(0, c["n0"])
            nn = n if isinstance(n, int) else {"2.0": 2.0, "'3'": "3", "None": None}.get(n, 2.5)
            desc = "%d-sample region / %r" % (c["n0"], nn)
            try:
                res = r / nn
            except TypeError:
                return [] if (not isinstance(nn, int) or nn <= 0) else [("C17: division by a positive int raises TypeError", desc)]
            if not isinstance(nn, int) or nn <= 0:
                return [("C17: division by a non-positive or non-int value does not raise TypeError", desc)]
            ls = [len(x) for x in res]
            if len(res) != min(nn, len(r)) or b"".join(x.data for x in res) != r.data or (ls and max(ls) - min(ls) > 1) or any(l == 0 for l in ls):
                return [("C17: division pieces wrong", desc + ": piece lengths %s" % ls)]
            return []
        if kind == "construct":
            data = byt.concrete_bytes(c["nbytes"])
            try:
                r = ak.AudioRegion(data, 10, sw, ch)
                ok = c["nbytes"] % bps == 0
            except AudioParameterError:
                return [] if c["nbytes"] % bps else [("C17: whole-sample data rejected", "%d bytes, sw=%d ch=%d" % (c["nbytes"], sw, ch))]
            if not ok:
                return [("C17: data that is not a whole number of samples accepted", "%d bytes, sw=%d ch=%d" % (c["nbytes"], sw, ch))]
            for name in ("data", "sampling_rate", "start"):
                try:
                    setattr(r, name, 1)
                    return [("C17: region is mutable", "assignment to %s succeeds" % name)]
                except dataclasses.FrozenInstanceError:
                    pass
            for name in ("data", "sampling_rate", "sample_width", "channels", "start"):
                try:
                    delattr(r, name)
                    return [("C17: region is mutable", "del region.%s succeeds" % name)]
                except Exception:
                    pass
            return []
        if kind == "eq":
            r0 = reg(0, c["n0"])
            if c["variant"] == "same":
                r1 = reg(1, c.get("n1", 0))
                same = r0.data == r1.data
                ra, rb = ak.AudioRegion(r0.data, sr, sw, ch, start=0.5), ak.AudioRegion(r0.data, sr, sw, ch, start=1.25)
                if not (ra == rb) or not (ra == r0):
                    return [("C17: regions with equal bytes and parameters but different start times compare unequal", "")]
                if (r0 == r1) != same or not (r0 == ak.AudioRegion(r0.data, sr, sw, ch)) or (r0 == 5):
                    return [("C17: == is not byte-and-parameter equality", "regions of %d and %d samples" % (c["n0"], c.get("n1", 0)))]
                return []
            f = other_fmt(sw, ch, sr, c["variant"])
            r1 = ak.AudioRegion(r0.data, f[2], f[0], f[1])
            return [("C17: regions differing in %s compare equal" % c["variant"], "")] if r0 == r1 else []
    except Exception as ex:
        return [("C17: %s raises %s" % (kind, type(ex).__name__), "%s: %s" % (c, ex))]
    return []


def replay(c):
    f = replay_fn(c)
    return (bool(f), f[0][1] if f else "property holds on the real code for this input")


def run(rep):
    tok.VALIDATE[0] = replay_fn
    L = loader.load()
    rep.hashes = L.hashes
    tier = rep.tier
    quick = tier == "quick"
    fm = byt.fmts(tier)[:3] if quick else byt.fmts(tier)
    KMAX = 4 if quick else 5
    NMAX = 6 if quick else 8
    rep.bounds = {"concat": "+ / sum / join of up to %d regions over independent byte sequences of unbounded length; last operand differing in rate / width / channels" % KMAX,
                  "repeat": "factor in -1..%d (both operand orders) and non-int factors; region length unbounded" % NMAX,
                  "divide": "divisor 1..%d, 0, -1 and non-int; region length unbounded" % NMAX,
                  "silence": "duration p/q, p unbounded >= 0, q in {1, 1000, 1024}; rate enumerated",
                  "construct": "data length unbounded (any number of bytes)",
                  "==": "regions of <= 3 samples over independent sequences (sequence theory), and same bytes with one differing parameter"}
    rep.explanation = ("Real AudioRegion.__add__/__radd__/__mul__/__rmul__/__truediv__/join/__eq__/__post_init__ and make_silence executed on "
                       "regions over uninterpreted byte sequences; z3 proves results equal the byte-level concatenation / repetition.")
    rep.assumptions = ["formats enumerated: %s" % fm, "make_silence duration as exact rational"]
    rep.outside = ["repetition counts and divisors above %d" % NMAX, "division of a region shorter than the divisor with an unbounded divisor"]

    def go(hn, fn, ideal=False, workers=4):
        ex = explore(fn, workers=workers)
        rep.add_exploration(hn, ex)
        tok.handle_cex(rep, hn, ex, replay_fn, ideal=ideal)
    for (sw, ch) in fm:
        for op in ("+", "+=", "sum", "join"):
            if op == "+=" and (sw, ch) != fm[0]:
                continue
            for k in range(0 if op not in ("+", "+=") else 1, (KMAX if op != "+=" else 3) + 1):
                for variant in (VARIANTS if (k >= 2 and (sw, ch) == fm[0]) else VARIANTS[:1]):
                    go("%s[sw=%d,ch=%d,k=%d,%s]" % (op, sw, ch, k, variant), concat_harness(L, sw, ch, 10, op, k, variant))
                if op != "+" and k in (2, 3) and (sw, ch) == fm[0]:
                    for feed in ("iter", "generator", "tuple"):
                        go("%s[sw=%d,ch=%d,k=%d,%s]" % (op, sw, ch, k, feed), concat_harness(L, sw, ch, 10, op, k, "same", feed))
        if (sw, ch) == fm[0]:
            for (sw2, ch2) in ((2, 1), (1, 2), (4, 1)):
                for op in ("+", "sum", "join"):
                    go("%s[sw=%d,ch=%d,k=2,%s]" % (op, sw2, ch2, VARIANTS[4]), concat_harness(L, sw2, ch2, 10, op, 2, VARIANTS[4]))
        for n in list(range(-1, NMAX + 1)) + [2.0, "3", None]:
            for left in ((False, True) if (sw, ch) == fm[0] else (False,)):
                go("repeat[sw=%d,ch=%d,n=%r,%s]" % (sw, ch, n, "left" if left else "right"), repeat_harness(L, sw, ch, 10, n, left), workers=2)
        for n in list(range(1, NMAX + 1)) + [0, -1, 2.0, "3", None]:
            go("divide[sw=%d,ch=%d,n=%r]" % (sw, ch, n), divide_harness(L, sw, ch, 10, n), workers=8)
        go("construct[sw=%d,ch=%d]" % (sw, ch), construct_harness(L, sw, ch), workers=1)
    for sr in byt.rates(tier):
        for den in (1, 1000, 1024):
            go("silence[sr=%d,q=%d]" % (sr, den), silence_harness(L, 2, 2, sr, den), ideal=True, workers=1)
    for variant in VARIANTS:
        go("eq[%s]" % variant, eq_harness(L, 2, 1, 10, variant, 3), workers=4)
