"""C06 - durations given in seconds are honoured, counted in analysis windows.
K: the real _duration_to_nb_windows executed on bit-exact IEEE doubles (z3 FloatingPoint) with the (round_fn, epsilon)
    pairs that split() actually passes (captured from a concrete run of the real split()).
D: the real split() with symbolic durations (exact rationals) and a recording tokenizer: which count goes where,
    which window divides, and the exact accept/reject partition."""
import math
import os

import z3

from ..engine import explore, Unsupported
from ..values import SymInt, SymRat, SymBool, toint, tobool
from ..fp import SymFP, SymFPInt, F, RNE, fpv, fp_to_float
from .. import loader
from . import byt, tok

I = z3.Int
ROLES = ("min_dur", "max_dur", "max_silence")
# tolerance band of the statement: |q - r| <= 5e-11 must give r; |q - r| > 1.1e-9 must give the exact ceil/floor
NEAR, FAR = 5e-11, 1.1e-9
RANGE = dict(w_min=1e-6, w_max=1e3, d_max=1e6, q_max=1e5)


def capture(core):
    """run the real split() once and record how it converts each duration argument"""
    got = {}
    orig = core._duration_to_nb_windows
    vals = {0.3: "min_dur", 0.7: "max_dur", 0.2: "max_silence"}

    def rec(duration, analysis_window, round_fn=round, epsilon=0):
        role = vals.get(duration)
        if role:
            got[role] = (round_fn, epsilon, analysis_window)
        return orig(duration, analysis_window, round_fn, epsilon)
    core._duration_to_nb_windows = rec
    try:
        list(core.split(b"\0\0" * 10, min_dur=0.3, max_dur=0.7, max_silence=0.2, analysis_window=0.1, sr=10, sw=2, ch=1,
                        validator=lambda f: False))
    finally:
        core._duration_to_nb_windows = orig
    return got


def kernel_harness(L, role):
    """the real split() with one duration argument and the window as symbolic doubles; the other two conversions are
    replaced by constants so that exactly one fp.div is in play.  What is judged is the count that reaches the
    tokenizer (i.e. _duration_to_nb_windows plus whatever split() does around it)."""
    core, util = L.modules["core"], L.modules["util"]

    class StubReader(util.AudioReader):
        def __init__(self, w):
            self._w = w
            self._record = False

        block_dur = property(lambda self: self._w)
        sr = sampling_rate = property(lambda self: 16000)
        sw = sample_width = property(lambda self: 2)
        ch = channels = property(lambda self: 1)

        def open(self):
            pass

        def read(self):
            return None

    def path(e):
        e.fresh_logic = "QF_FP"
        d, w = z3.FP("d", F), z3.FP("w", F)
        e.add(z3.And(z3.Not(z3.fpIsNaN(d)), z3.Not(z3.fpIsNaN(w)), z3.Not(z3.fpIsInf(d)), z3.Not(z3.fpIsInf(w)),
                     z3.fpGEQ(w, fpv(RANGE["w_min"])), z3.fpLEQ(w, fpv(RANGE["w_max"])),
                     z3.fpLEQ(d, fpv(RANGE["d_max"])), z3.fpGEQ(d, fpv(-1.0))))
        # the bound on the quotient is an antecedent of the final goal only, so that the branch-feasibility queries
        # before the division stay free of fp.div
        in_range = z3.fpLEQ(z3.fpDiv(RNE, d, w), fpv(RANGE["q_max"]))
        meta = dict(kind="kernel", role=role)
        sd = SymFP(d)
        orig = core._sx_orig_dtnw
        seen = {}

        def stub(duration, analysis_window, round_fn=round, epsilon=0):
            if duration is sd:
                seen["w_is_block_dur"] = isinstance(analysis_window, SymFP) and analysis_window.t is w
                out = orig(duration, analysis_window, round_fn, epsilon)
                seen["helper"] = out
                return out
            return {"min": 1, "max": 10 ** 9, "sil": 0}[duration]
        core._duration_to_nb_windows = stub
        made = []

        class RecTok:
            NORMAL, STRICT_MIN_LENGTH, DROP_TRAILING_SILENCE = 0, 2, 4

            def __init__(self, validator, min_length, max_length, max_continuous_silence, init_min=0, init_max_silence=0, mode=0):
                made.append({"min_dur": min_length, "max_dur": max_length, "max_silence": max_continuous_silence})

            def tokenize(self, source, callback=None, generator=False):
                return iter(())
        orig_tok = core.StreamTokenizer
        core.StreamTokenizer = RecTok
        kw = dict(min_dur="min", max_dur="max", max_silence="sil", validator=lambda f: False)
        kw[role] = sd
        # the non-symbolic duration tags must pass split()'s own sign checks
        class Tag(str):
            def __le__(self, o):
                return False

            def __lt__(self, o):
                return False
        for k in ("min_dur", "max_dur", "max_silence"):
            if k != role:
                kw[k] = Tag(kw[k])
        try:
            list(core.split(StubReader(SymFP(w)), **kw))
            outcome = "accepted"
        except ValueError:
            outcome = "ValueError"
        except Exception as ex:
            outcome = "raised %s: %s" % (type(ex).__name__, str(ex)[:80])
        finally:
            core.StreamTokenizer = orig_tok
        q = z3.fpDiv(RNE, d, w)
        r_ = z3.fpRoundToIntegral(RNE, q)
        dist = z3.fpAbs(z3.fpSub(RNE, q, r_))
        up = role == "min_dur"
        exact = z3.fpRoundToIntegral(z3.RTP() if up else z3.RTN(), q)
        positive = z3.fpGT(d, fpv(0.0)) if up or role == "max_dur" else z3.fpGEQ(d, fpv(0.0))

        def band(n):
            """n: integral-valued FP term or python int"""
            nt = fpv(n) if not isinstance(n, SymFP) else n.t
            low = fpv(1.0) if up else fpv(0.0)
            return z3.And(
                z3.Implies(z3.And(z3.fpLEQ(dist, fpv(NEAR)), z3.fpGEQ(r_, low)), z3.fpEQ(nt, r_)),
                z3.Implies(z3.fpGT(dist, fpv(FAR)), z3.fpEQ(nt, exact)),
                z3.Or(z3.fpEQ(nt, z3.fpRoundToIntegral(z3.RTN(), q)), z3.fpEQ(nt, z3.fpRoundToIntegral(z3.RTP(), q)),
                      z3.And(z3.BoolVal(up), z3.fpEQ(nt, fpv(1.0)), z3.fpLEQ(z3.fpRoundToIntegral(z3.RTP(), q), fpv(1.0)))),
                z3.fpGEQ(nt, low))
        if outcome == "accepted":
            if len(made) != 1:
                goal = z3.BoolVal(False)
            else:
                goal = z3.And(positive, band(made[0][role]), z3.BoolVal(seen.get("w_is_block_dur", False)))
        elif outcome == "ValueError":
            # legitimate rejections: non-positive min_dur / max_dur, negative max_silence, or (max_dur / max_silence roles)
            # a count that conflicts with the constant counts of the other two roles
            if "helper" in seen and role == "max_dur":
                goal = z3.Or(z3.Not(positive), z3.And(band(seen["helper"]), z3.fpLT(fpv(seen["helper"]) if not isinstance(seen["helper"], SymFP) else seen["helper"].t, fpv(1.0))))
            elif "helper" in seen and role == "max_silence":
                goal = z3.Not(positive)
            else:
                goal = z3.Not(positive)
        else:
            goal = z3.BoolVal(False)
        res, m = e.refute(z3.Implies(in_range, goal))
        second = None
        if os.environ.get("SXV_TIER") == "thorough":
            second = e.second_opinion(z3.Implies(in_range, goal))
            if second in ("sat", "unsat") and second != res and res in ("sat", "unsat"):
                return {"status": "unknown", "why": "z3 says %s, cvc5 says %s for %s: inconclusive" % (res, second, role), "cvc5": second}
        if res == "unsat":
            return {"status": "ok", "outcome": outcome, "cvc5": second}
        if res == "sat":
            return {"status": "cex", "failing": ["%s: window count outside the tolerance band of the statement" % outcome], "cex": mkfp(m, d, w, meta)}
        return {"status": "unknown", "why": "z3 gave no verdict on the FP lemma for %s within the time-out" % role}
    return path


_KL = None


def _kernel_job(role):
    L, tmo = _KL
    return explore(kernel_harness(L, role), workers=1, timeout_ms=tmo, deadline_s=tmo / 1000 * 6, path_wall_s=tmo / 1000 * 5)


def mkfp(m, d, w, meta):
    c = dict(meta)
    c["d"] = fp_to_float(m, d).hex()
    c["w"] = fp_to_float(m, w).hex()
    return c


# ------------------------------------------------------------ wiring (D shape)
def wiring_harness(L, inp):
    core, util = L.modules["core"], L.modules["util"]
    sr, sw, ch = 10, 2, 1

    def path(e):
        D, data = byt.sym_audio(e, "D", sw * ch)
        e.assume(D.nsamples <= 3)
        pm, px, ps, pw = I("p_min"), I("p_max"), I("p_sil"), I("p_aw")
        den = 1024
        n1, n2, n3 = I("n_min"), I("n_max"), I("n_sil")
        e.assume(z3.And(n1 >= 0, n2 >= 0, n3 >= 0))
        calls = []
        role_of = {}

        def stub(duration, analysis_window, round_fn=round, epsilon=0):
            # stands for the K-lemma: a non-negative integer per duration argument; 0 for a zero duration
            calls.append((duration, analysis_window))
            k = len(calls)
            out = {1: n1, 2: n2, 3: n3}.get(k)
            if out is None:
                raise Unsupported("more than three conversions")
            dz = SymRat.of(duration)
            e.add(z3.Implies(dz.num == 0, out == 0))
            e.add(z3.Implies(dz.num > 0, out >= 1) if k == 1 else z3.BoolVal(True))
            return SymInt(out)
        core._duration_to_nb_windows = stub
        made = []

        class RecTok:
            NORMAL, STRICT_MIN_LENGTH, DROP_TRAILING_SILENCE = 0, 2, 4

            def __init__(self, validator, min_length, max_length, max_continuous_silence, init_min=0, init_max_silence=0, mode=0):
                made.append((min_length, max_length, max_continuous_silence, init_min, init_max_silence, mode))

            def tokenize(self, source, callback=None, generator=False):
                return iter(())
        orig_tok = core.StreamTokenizer
        core.StreamTokenizer = RecTok
        drop, strict = bool(e.choose(2)), bool(e.choose(2))
        kw = dict(min_dur=SymRat(pm, den), max_dur=SymRat(px, den), max_silence=SymRat(ps, den),
                  drop_trailing_silence=drop, strict_min_dur=strict, validator=lambda f: False)
        meta = dict(kind="wiring", inp=inp, drop=drop, strict=strict, den=den)
        syms = dict(p_min=pm, p_max=px, p_sil=ps, p_aw=pw, n_min=n1, n_max=n2, n_sil=n3, n=D.nsamples)
        outcome = None
        try:
            if inp == "reader":
                e.assume(pw * sr >= den)     # a valid reader can be built
                rd = util.AudioReader(data, block_dur=SymRat(pw, den), sr=sr, sw=sw, ch=ch)
                w_expected = SymRat.of(rd.block_dur)
                list(core.split(rd, analysis_window=SymRat(7, 3), **kw))      # analysis_window must be ignored for a reader
            elif inp == "region":
                w_expected = SymRat(pw, den)
                list(core.split(core.AudioRegion(data, sr, sw, ch), analysis_window=SymRat(pw, den), **kw))
            elif inp == "region.split":
                w_expected = SymRat(pw, den)
                kw.pop("validator")
                list(core.AudioRegion(data, sr, sw, ch).split(analysis_window=SymRat(pw, den), validator=lambda f: False, **kw))
            else:
                w_expected = SymRat(pw, den)
                list(core.split(data, sr=sr, sw=sw, ch=ch, analysis_window=SymRat(pw, den), **kw))
            outcome = "accepted"
        except ValueError:
            outcome = "ValueError"
        except Exception as ex:
            outcome = "raised %s: %s" % (type(ex).__name__, str(ex)[:60])
        finally:
            core.StreamTokenizer = orig_tok
        # the documented rejection condition, in terms of the arguments and of the three counts
        B = e.fresh("Bw")                                   # int(aw*rate)
        x = pw * sr
        e.add(z3.If(x >= 0, z3.And(B * den <= x, x < (B + 1) * den), z3.And((B - 1) * den < x, x <= B * den)))
        reject = z3.Or(pm <= 0, px <= 0, ps < 0)
        if inp != "reader":
            reject = z3.Or(reject, pw <= 0, B == 0)
        reject = z3.Or(reject, n1 > n2, n3 >= n2)
        conds = {}
        if outcome == "accepted":
            conds["accepted only when the statement accepts"] = z3.Not(reject)
            conds["exactly one tokenizer built"] = len(made) == 1
            conds["three conversions"] = len(calls) == 3
            if len(made) == 1 and len(calls) == 3:
                mn, mx, ms, im, ims, mode = made[0]
                conds["min_length is the count of min_dur"] = z3.And(toint(mn) == n1, SymRat.of(calls[0][0]).eqz(SymRat(pm, den)))
                conds["max_length is the count of max_dur"] = z3.And(toint(mx) == n2, SymRat.of(calls[1][0]).eqz(SymRat(px, den)))
                conds["max_continuous_silence is the count of max_silence"] = z3.And(toint(ms) == n3, SymRat.of(calls[2][0]).eqz(SymRat(ps, den)))
                for i in range(3):
                    conds[("window used for conversion", i)] = SymRat.of(calls[i][1]).eqz(w_expected)
                conds["mode bits"] = mode == (4 if drop else 0) | (2 if strict else 0)
                conds["no initial phase"] = (im, ims) == (0, 0) or (toint(im) <= 1) is True
        elif outcome == "ValueError":
            conds["ValueError only when the statement rejects"] = reject
        else:
            conds[outcome] = False
        r = tok.discharge(e, conds, lambda m: mk(m, syms, meta))
        r["outcome"] = outcome
        return r
    return path


def mk(m, syms, meta):
    c = dict(meta)
    for k, t in syms.items():
        c[k] = byt.iv(m, t)
    return c


# ------------------------------------------------------------------ replay
def replay_fn(c):
    if "kind" not in c and "via" in c:
        from . import c05
        return c05.replay_fn(c)
    if "kind" not in c:
        from . import c04
        return c04.replay_fn(c)
    ak = loader.real_auditok()
    import auditok.core as rcore
    if c["kind"] == "kernel":
        d, w = float.fromhex(c["d"]), float.fromhex(c["w"])
        role = c["role"]
        import auditok.util as rutil

        class StubReader(rutil.AudioReader):
            def __init__(self, w):
                self._w = w
                self._record = False
            block_dur = property(lambda self: self._w)
            sr = sampling_rate = property(lambda self: 16000)
            sw = sample_width = property(lambda self: 2)
            ch = channels = property(lambda self: 1)

            def open(self):
                pass

            def read(self):
                return None
        made = []

        class RecTok:
            NORMAL, STRICT_MIN_LENGTH, DROP_TRAILING_SILENCE = 0, 2, 4

            def __init__(self, validator, min_length, max_length, max_continuous_silence, init_min=0, init_max_silence=0, mode=0):
                made.append({"min_dur": min_length, "max_dur": max_length, "max_silence": max_continuous_silence})

            def tokenize(self, source, callback=None, generator=False):
                return iter(())
        kw = dict(min_dur=w / 2, max_dur=3e5 * w, max_silence=0, validator=lambda f: False)
        kw[role] = d
        origt = rcore.StreamTokenizer
        rcore.StreamTokenizer = RecTok
        try:
            list(ak.split(StubReader(w), **kw))
            out = "accepted"
        except ValueError:
            out = "ValueError"
        except Exception as ex:
            return [("C06: split raises %s" % type(ex).__name__, "%s=%r, window=%r: %s" % (role, d, w, ex))]
        finally:
            rcore.StreamTokenizer = origt
        up = role == "min_dur"
        positive = d > 0 if role != "max_silence" else d >= 0
        q = d / w
        r = round(q)
        dist = abs(q - r)
        exact = math.ceil(q) if up else math.floor(q)
        low = 1 if up else 0
        desc = "split(reader with block_dur=%r, %s=%r): quotient %r" % (w, role, d, q)
        if not positive:
            return [] if out == "ValueError" else [("C06: non-positive %s accepted" % role, desc)]
        if out == "ValueError":
            if role == "max_dur" and math.floor(q + 1e-9) < 1:
                return []            # fewer windows than min_dur needs
            return [("C06: split rejects a valid %s" % role, desc)]
        n = made[0][role]
        bad = (dist <= NEAR and r >= low and n != r) or (dist > FAR and n != exact) or n < low \
            or not (n in (math.floor(q), math.ceil(q)) or (up and n == 1 and math.ceil(q) <= 1))
        if bad:
            key = "C06: min_dur whose quotient is within 1e-9 above an integer is rounded up to the next window count" if (up and dist <= NEAR and n == r + 1) \
                else "C06: %s converted to a window count outside the statement's tolerance" % role
            return [(key, desc + ", %d windows reach the tokenizer" % n)]
        return []
    # wiring: replay through the real split with a recording tokenizer
    den = c["den"]
    sr, sw, ch = 10, 2, 1
    data = byt.concrete_bytes(c["n"] * sw * ch)
    made = []

    class RecTok:
        NORMAL, STRICT_MIN_LENGTH, DROP_TRAILING_SILENCE = 0, 2, 4

        def __init__(self, validator, min_length, max_length, max_continuous_silence, init_min=0, init_max_silence=0, mode=0):
            made.append((min_length, max_length, max_continuous_silence, mode))

        def tokenize(self, source, callback=None, generator=False):
            return iter(())
    counts = iter([c["n_min"], c["n_max"], c["n_sil"]])
    calls = []

    def stub(duration, analysis_window, round_fn=round, epsilon=0):
        calls.append((duration, analysis_window))
        return 0 if duration == 0 else next(counts)
    orig, origt = rcore._duration_to_nb_windows, rcore.StreamTokenizer
    rcore._duration_to_nb_windows, rcore.StreamTokenizer = stub, RecTok
    kw = dict(min_dur=c["p_min"] / den, max_dur=c["p_max"] / den, max_silence=c["p_sil"] / den, drop_trailing_silence=c["drop"],
              strict_min_dur=c["strict"], validator=lambda f: False)
    aw = c["p_aw"] / den
    desc = "split(%s, min_dur=%r, max_dur=%r, max_silence=%r, analysis_window=%r) with window counts (%d,%d,%d)" % (
        c["inp"], kw["min_dur"], kw["max_dur"], kw["max_silence"], aw, c["n_min"], c["n_max"], c["n_sil"])
    try:
        if c["inp"] == "reader":
            rd = ak.AudioReader(data, block_dur=aw, sr=sr, sw=sw, ch=ch)
            wexp = rd.block_dur
            list(ak.split(rd, analysis_window=7 / 3, **kw))
        elif c["inp"] == "region":
            wexp = aw
            list(ak.split(ak.AudioRegion(data, sr, sw, ch), analysis_window=aw, **kw))
        elif c["inp"] == "region.split":
            wexp = aw
            list(ak.AudioRegion(data, sr, sw, ch).split(analysis_window=aw, **kw))
        else:
            wexp = aw
            list(ak.split(data, sr=sr, sw=sw, ch=ch, analysis_window=aw, **kw))
        out = "accepted"
    except ValueError:
        out = "ValueError"
    except Exception as ex:
        return [("C06: split raises %s" % type(ex).__name__, desc + ": %s" % ex)]
    finally:
        rcore._duration_to_nb_windows, rcore.StreamTokenizer = orig, origt
    n1 = 0 if kw["min_dur"] == 0 else c["n_min"]
    reject = kw["min_dur"] <= 0 or kw["max_dur"] <= 0 or kw["max_silence"] < 0
    if c["inp"] != "reader":
        reject = reject or aw <= 0 or int(aw * sr) == 0
    n3 = 0 if kw["max_silence"] == 0 else c["n_sil"]
    reject = reject or c["n_min"] > c["n_max"] or n3 >= c["n_max"]
    if (out == "ValueError") != reject:
        return [("C06: split %s a combination the statement %s" % ("rejects" if out == "ValueError" else "accepts", "accepts" if not reject else "rejects"), desc)]
    if out == "accepted":
        want = (c["n_min"], c["n_max"], n3, (4 if c["drop"] else 0) | (2 if c["strict"] else 0))
        if len(made) != 1 or tuple(made[0]) != want or [x[1] for x in calls] != [wexp] * 3:
            return [("C06: window counts reach the tokenizer in the wrong place or are computed with the wrong window",
                     desc + ": tokenizer built with %s, expected %s; windows used %s, expected %r" % (made, want, [x[1] for x in calls], wexp))]
    return []


def replay(c):
    f = replay_fn(c)
    return (bool(f), f[0][1] if f else "property holds on the real code for this input")


def run(rep):
    tok.VALIDATE[0] = replay_fn
    L = loader.load()
    core = L.modules["core"]
    rep.hashes = L.hashes
    rep.level = "other"
    tmo = 120000 if rep.tier == "quick" else 900000
    rep.bounds = {"kernel": "every IEEE double duration in [0, %g] and analysis window in [%g, %g] with quotient <= %g windows" % (RANGE["d_max"], RANGE["w_min"], RANGE["w_max"], RANGE["q_max"]),
                  "tolerance band": "|q - nearest| <= %g must give the nearest integer, > %g must give the exact ceil/floor; in between either" % (NEAR, FAR),
                  "wiring": "all rational durations p/1024 (p unbounded of either sign), window counts unbounded non-negative integers, bytes and AudioReader inputs, both flags"}
    rep.explanation = ("K: exact-floating-point lemma: the real _duration_to_nb_windows is executed on z3 FloatingPoint(11,53) terms with the "
                       "(round_fn, epsilon) pairs captured from a concrete run of the real split(); one QF_FP query per duration role. "
                       "D: real split() with durations as exact rationals, the three conversions abstracted to unbounded integers and a "
                       "recording tokenizer; z3 proves the slots, the dividing window and the exact accept/reject partition.")
    rep.assumptions = ["D-shape: durations idealised as exact rationals; the conversions are abstracted (their float behaviour is the K lemma)",
                       "K-shape: no idealisation (bit-exact doubles, RNE); range restrictions as stated"]
    rep.outside = ["quotients above %g windows (double spacing approaches the tolerance)" % RANGE["q_max"], "durations above %g s, windows outside [%g, %g] s" % (RANGE["d_max"], RANGE["w_min"], RANGE["w_max"])]
    core._sx_orig_dtnw = core._duration_to_nb_windows
    import multiprocessing as mp
    global _KL
    _KL = (L, tmo)
    with mp.get_context("fork").Pool(3) as pool:
        exs = pool.map(_kernel_job, ROLES)
    for role, ex in zip(ROLES, exs):
        rep.add_exploration("kernel[%s]" % role, ex)
        tok.handle_cex(rep, "kernel[%s]" % role, ex, replay_fn)
        for r in ex.results:
            if r["status"] == "unknown":
                rep.inconclusive.append("kernel[%s]: %s" % (role, r.get("why")))
    # "an event is reported once it spans ceil(min_dur/w) windows, never spans more than floor(max_dur/w) ...": with the
    # counts proven above this is the tokenizer's completeness (C04); the same differential is run here on the counts
    from . import c04
    N = 5 if rep.tier == "quick" else 8
    tok.run_bmc(rep, core, "burst-e2e", N, (0, 4) if rep.tier == "quick" else tok.MODES, (False,), c04.oblig, c04.replay_fn)
    # ... "subject only to the remainder rule and a shorter final window at end of stream": the regions split() finally yields
    # (after whatever it does to the tokens) for inputs with a partial last window, strict and non-strict
    from . import c05
    for mode in (2, 0) if rep.tier == "quick" else tok.MODES:
        hn = "regions-e2e[K=3,mode=%d]" % mode
        ex = explore(c05.harness(L, 1, 1, 10, 3, mode, "function"))
        rep.add_exploration(hn, ex)
        tok.handle_cex(rep, hn, ex, c05.replay_fn, ideal=True)
    for inp in ("bytes", "reader", "region", "region.split"):
        ex = explore(wiring_harness(L, inp))
        rep.add_exploration("wiring[%s]" % inp, ex)
        tok.handle_cex(rep, "wiring[%s]" % inp, ex, replay_fn, ideal=True)
        outs = {r.get("outcome") for r in ex.results}
        rep.witness("wiring[%s]: accepted path" % inp, "accepted" in outs)
        rep.witness("wiring[%s]: rejected path" % inp, "ValueError" in outs)
