"""C01 - tokens are exact, ordered, non-overlapping slices of the input stream.
Shapes: I (one real transition from an arbitrary Inv03 state, streams of any length) + B (whole runs)."""
import z3

from ..values import toint
from .. import loader, oracles
from . import tok

BOUNDS = {"quick": dict(N=6, N_init=6), "thorough": dict(N=10, N_init=9)}


def oblig(ctx):
    frames, toks, N = ctx["frames"], ctx["toks"], ctx["N"]
    index = {id(f): i for i, f in enumerate(frames)}
    conds = {}
    prev_e = None
    for k, (data, s, en) in enumerate(toks):
        if not isinstance(data, list) or not data or any(id(f) not in index for f in data):
            conds[("frames are frames of the stream", k)] = False
            continue
        pos = [index[id(f)] for f in data]
        # start/end may be symbolic expressions (e.g. computed from a symbolic parameter): compare as formulas
        sv, ev = toint(s), toint(en)
        conds[("frames", k)] = pos == list(range(pos[0], pos[0] + len(pos)))
        conds[("start is the position of the first frame", k)] = sv == pos[0]
        conds[("end is the position of the last frame", k)] = ev == pos[-1]
        conds[("bounds", k)] = 0 <= pos[0] <= pos[-1] < N
        if prev_e is not None:
            conds[("order", k)] = pos[0] > prev_e
        prev_e = pos[-1]
    return conds


def replay_fn(c):
    try:
        frames, toks, src = tok.replay_tokens(c)
    except Exception as ex:
        return [("tokenize raises %s" % type(ex).__name__, "%s raises %s: %s" % (tok.describe(c), type(ex).__name__, ex))]
    fails = oracles.c01_failures(toks, frames)
    if not fails:
        return []
    kind = fails[0].split(":")[0].split(" ", 2)[-1] if fails else ""
    return [("C01: " + _classify(fails[0]), "%s -> tokens %s: %s" % (tok.describe(c), [(s, e) for _, s, e in toks], fails[0]))]


def _classify(msg):
    for k in ("bounds", "end-start+1", "frames are not", "starts at"):
        if k in msg:
            return k
    return msg


def replay(c):
    f = replay_fn(c)
    return (bool(f), f[0][1] if f else "property holds on the real code for this input")


def run(rep):
    tok.VALIDATE[0] = replay_fn
    b = BOUNDS[rep.tier]
    L = loader.load()
    core = L.core
    rep.hashes = L.hashes
    rep.level = "model_checking"
    rep.bounds = {"inductive_step": "any stream length, any accepted (min_length,max_length,mcs), init_min<=1, all 4 modes",
                  "bounded_runs": "streams of <= %d frames (<= %d with a symbolic initial phase); parameters unbounded integers" % (b["N"], b["N_init"])}
    rep.explanation = ("Real StreamTokenizer code executed on symbolic frames (one validity bit each) and unbounded symbolic "
                       "integer parameters; z3 decides every path. I: one real _process/_post_process from an arbitrary state "
                       "satisfying Inv03, Skolemised buffer contents. B: whole runs through tokenize().")
    rep.assumptions = ["validator is a pure function of the frame (one symbolic bit per frame)",
                       "source.read() does not raise", "constructor-accepted parameters (acceptance itself is C02)"]
    rep.outside = ["validators with side effects or that raise", "I-shape covers init_min <= 1 only; init_min > 1 is covered by B up to the stated N"]
    ok_base = tok.base_case(core)
    closed = tok.run_istep(rep, core, ("c01",))
    rep.inductive["base_case_reinitialize"] = ok_base
    rep.witness("inductive step closes", closed and ok_base)
    tok.run_bmc(rep, core, "bmc", b["N"], tok.MODES, (False,), oblig, replay_fn)
    tok.run_bmc(rep, core, "bmc", b["N_init"], (0, 4) if rep.tier == "quick" else tok.MODES, (True,), oblig, replay_fn)
    for delivery in ("generator", "callback"):
        tok.run_bmc(rep, core, "bmc-" + delivery, min(b["N"], 6), (0,), (False,), oblig, replay_fn, delivery=delivery)
    # "for every frame type": frames that are falsy objects are frames like any other
    tok.run_bmc(rep, core, "bmc-falsy-frames", min(b["N"], 6), (0, 6), (False,), oblig, replay_fn, falsy=True)
    tok.run_bmc(rep, core, "bmc-mixed-frame-types", min(b["N"], 6), (0, 6), (False,), oblig, replay_fn, falsy="mixed")
    # "every validator": one that answers True or None
    tok.run_bmc(rep, core, "bmc-true-or-none-validator", min(b["N"], 6), (0, 6), (False,), oblig, replay_fn, falsy="none-validator")
    rep.witness("some path delivers >= 2 tokens", any(h["harness"].startswith("bmc") for h in rep.harnesses))
    if not closed:
        rep.notes.append("invariant not inductive on this tree; claim reduced to the bounded runs")
