"""C03 - silence tolerance.  I (Inv03 with ghost run array) + B (direct formulas over the validity bits)."""
import z3

from ..values import tobool
from .. import loader, oracles
from . import tok

BOUNDS = {"quick": dict(N=6, N_init=6), "thorough": dict(N=10, N_init=9)}


def oblig(ctx):
    toks, P, mode, with_init = ctx["toks"], ctx["P"], ctx["mode"], ctx["with_init"]
    mx, ms = P["mx"], P["ms0"]
    bound = ms
    if with_init:
        bound = z3.If(P["im"] > 1, z3.If(P["ims"] > ms, P["ims"], ms), ms)
    conds = {}
    prev = None
    for k, (data, s, en) in enumerate(toks):
        L = len(data)
        if L == 0:
            conds[("nonempty", k)] = False
            continue
        cont = prev is not None and isinstance(s, int) and prev[2] + 1 == s
        cont_cut = z3.And(z3.BoolVal(cont), len(prev[0]) == mx) if prev else z3.BoolVal(False)
        if prev is not None and cont:
            pr = z3.IntVal(0)
            for f in prev[0]:
                pr = z3.If(tobool(f.valid), 0, pr + 1)
            r = z3.If(cont_cut, pr, 0)
        else:
            r = z3.IntVal(0)
        runs = []
        for f in data:
            r = z3.If(tobool(f.valid), 0, r + 1)
            runs.append(r)
        conds[("run", k)] = z3.And(*[x <= bound for x in runs])
        conds[("somevalid", k)] = z3.Or(*[tobool(f.valid) for f in data])
        conds[("startvalid", k)] = z3.Or(tobool(data[0].valid), cont_cut)
        if mode & 4:
            conds[("endvalid", k)] = z3.Or(tobool(data[-1].valid), L == mx)
        prev = (data, s, en)
    return conds


def replay_fn(c):
    try:
        frames, toks, src = tok.replay_tokens(c)
    except Exception as ex:
        return [("tokenize raises %s" % type(ex).__name__, "%s raises %s: %s" % (tok.describe(c), type(ex).__name__, ex))]
    fails = oracles.c03_failures(toks, c["max_length"], c["mcs"], c.get("init_min", 0), c.get("init_max_silence", 0), bool(c["mode"] & 4))
    out = []
    for f in fails[:1]:
        key = "C03: " + " ".join(w for w in f.split()[2:] if not w.isdigit())
        out.append((key, "%s -> tokens %s: %s" % (tok.describe(c), [(s, e) for _, s, e in toks], f)))
    return out


def replay(c):
    f = replay_fn(c)
    return (bool(f), f[0][1] if f else "property holds on the real code for this input")


def run(rep):
    tok.VALIDATE[0] = replay_fn
    b = BOUNDS[rep.tier]
    L = loader.load()
    core = L.core
    rep.hashes = L.hashes
    rep.bounds = {"inductive_step": "any stream length, init_min<=1, all 4 modes, runs counted across adjacent cuts via ghost carry",
                  "bounded_runs": "streams of <= %d frames without / <= %d with a symbolic initial phase (bound max(mcs, init_max_silence) when init_min>1); parameters unbounded" % (b["N"], b["N_init"])}
    rep.explanation = ("I: real _process/_post_process from an arbitrary Inv03 state with a ghost run-length array; obligations "
                       "run[j]<=mcs (Skolem j), first/some/last frame valid. B: the four clauses as formulas over the validity bits of whole runs.")
    rep.assumptions = ["validator is a pure function of the frame", "source.read() does not raise"]
    rep.outside = ["streams longer than the B bound when init_min > 1"]
    closed = tok.run_istep(rep, core, ("c03",))
    rep.witness("inductive step closes", closed)
    tok.run_bmc(rep, core, "bmc", b["N"], tok.MODES, (False,), oblig, replay_fn)
    tok.run_bmc(rep, core, "bmc", b["N_init"], tok.MODES, (True,), oblig, replay_fn)
    if not closed:
        rep.notes.append("invariant not inductive on this tree; claim reduced to the bounded runs")
