"""Shared pieces for the tokenizer properties (C01-C04, C08, C20): symbolic frames, bounded runs
through the real tokenize(), the one-step inductive harness with invariant Inv03, model -> replay."""
import z3

from ..engine import Engine, S, explore
from ..values import SymBool, SymInt, GList, tobool, toint
from .. import loader, oracles

I = z3.Int
MODES = (0, 2, 4, 6)


class Frame:
    __slots__ = ("pos", "valid")

    def __init__(self, pos, valid):
        self.pos, self.valid = pos, valid


class FalsyFrame(Frame):
    """a frame object that is falsy (like 0, 0.0, b"" or an empty list would be): still a frame, not the end of the stream"""
    __slots__ = ()

    def __bool__(self):
        return False

    def __len__(self):
        return 0


class Src:
    def __init__(self, frames):
        self.frames = frames
        self.i = 0
        self.reads = 0
        self.nones = 0

    def read(self):
        self.reads += 1
        if self.i >= len(self.frames):
            self.nones += 1
            return None
        self.i += 1
        return self.frames[self.i - 1]


def validator(f):
    return f.valid


def sym_params(e, with_init):
    P = {"mn": I("min_length"), "mx": I("max_length"), "ms": I("mcs")}
    # max_continuous_silence may be negative (the constructor accepts it); a negative tolerance tolerates nothing, like 0
    e.assume(z3.And(P["mn"] >= 1, P["mn"] <= P["mx"], P["ms"] < P["mx"]))
    P["ms0"] = z3.If(P["ms"] < 0, 0, P["ms"])
    if with_init:
        P["im"] = I("init_min")
        P["ims"] = I("init_max_silence")
        e.assume(z3.And(P["im"] < P["mx"], P["ims"] >= 0, P["im"] >= 0))
        if with_init == "le1":
            # "the default initial phase": any init_min <= 1 (0 and 1 behave alike), any init_max_silence
            e.assume(P["im"] <= 1)
    else:
        P["im"] = z3.IntVal(0)
        P["ims"] = z3.IntVal(0)
    return P


def make_tokenizer(core, P, mode, with_init, val=validator):
    kw = {}
    if with_init:
        kw = dict(init_min=SymInt(P["im"]), init_max_silence=SymInt(P["ims"]))
    return core.StreamTokenizer(val, SymInt(P["mn"]), SymInt(P["mx"]), SymInt(P["ms"]), mode=mode, **kw)


FRAME_CLASS = [Frame]


def sym_frames(N, prefix="v"):
    return [FRAME_CLASS[0](i, SymBool(z3.Bool("%s%d" % (prefix, i)))) for i in range(N)]


def cex_from_model(m, N, P, mode, with_init, extra=None):
    def iv(t):
        return m.eval(t, model_completion=True).as_long()
    c = {"valid": [bool(z3.is_true(m.eval(z3.Bool("v%d" % i), model_completion=True))) for i in range(N)],
         "min_length": iv(P["mn"]), "max_length": iv(P["mx"]), "mcs": iv(P["ms"]),
         "init_min": iv(P["im"]) if with_init else 0, "init_max_silence": iv(P["ims"]) if with_init else 0,
         "mode": mode}
    if extra:
        c.update(extra)
    return c


VALIDATE = [None]      # replay function of the property being checked: concrete instances of sampled paths are run on the real code


def discharge(e, conds, mk_cex):
    """conds: {name: z3 Bool | bool}.  Returns a result dict."""
    names = list(conds)
    goal = z3.And(*[tobool(conds[k]) for k in names]) if names else z3.BoolVal(True)
    r, m = e.refute(goal)
    if r == "unsat":
        out = {"status": "ok", "obligations": len(names)}
        if VALIDATE[0] is not None and __import__("zlib").crc32(bytes(e.trace)) % 11 == 0:
            # validation against the implementation: a concrete instance of this path must satisfy the property on the
            # unmodified package as well (judged by the independent concrete oracle of the replay)
            mm = e.model()
            if mm is not None:
                try:
                    from ..engine import _arm, PathBudget
                    _arm(10)
                    try:
                        cc = mk_cex(mm)
                        bad = VALIDATE[0](cc)
                    finally:
                        _arm(e.path_wall_s)
                    out["validated_against_impl"] = not bad
                    out["instance"] = cc
                    if bad:
                        # the concrete instance of a path whose obligations were discharged violates the property on the real
                        # code: the symbolic run and the implementation disagree (the code left the modelled fragment, or a
                        # float effect under an idealisation).  The instance is a genuine, replayable counterexample.
                        return {"status": "cex", "failing": ["concrete instance of a discharged path fails on the real code: %s" % bad[0][0]],
                                "cex": cc, "validated_against_impl": False}
                except PathBudget:
                    # the concrete instance took longer than 10 s to run (solver models may hold huge lengths): the sample is
                    # skipped; the path itself was discharged
                    out["validation_skipped"] = "replay of the sampled instance exceeded 10 s"
                except Exception:
                    pass
        return out
    if r == "sat":
        failing = [k for k in names if not z3.is_true(m.eval(tobool(conds[k]), model_completion=True))]
        return {"status": "cex", "failing": [str(k) for k in failing], "cex": mk_cex(m)}
    return {"status": "unknown", "obligations": len(names)}


def stream_str(valid):
    return "".join("A" if b else "a" for b in valid)


def describe(c):
    s = "StreamTokenizer(min_length=%d, max_length=%d, max_continuous_silence=%d" % (c["min_length"], c["max_length"], c["mcs"])
    if c.get("init_min") or c.get("init_max_silence"):
        s += ", init_min=%d, init_max_silence=%d" % (c["init_min"], c["init_max_silence"])
    return s + ", mode=%d) on '%s'%s" % (c["mode"], stream_str(c["valid"]), {True: " (frames are falsy objects)", "odd positions": " (every other frame, starting with the second, is a falsy empty object)", "mixed": " (every other frame, starting with the first, is a falsy empty object)", "none-validator": " (validator answers True or None)"}.get(c.get("falsy"), ""))


def replay_tokens(c, delivery="list"):
    ak = loader.real_auditok()
    return oracles.run_tokenizer(ak, c["valid"], c["min_length"], c["max_length"], c["mcs"], c.get("init_min", 0),
                                 c.get("init_max_silence", 0), c["mode"], delivery, falsy=c.get("falsy") or False)


# --------------------------------------------------------------- bounded runs
def bmc_harness(core, N, mode, with_init, oblig, delivery="list", falsy=False):
    """oblig(ctx) -> dict of named conditions; ctx: frames, toks, src, P, mode, e"""
    def path(e):
        P = sym_params(e, with_init)
        FRAME_CLASS[0] = FalsyFrame if falsy is True else Frame
        frames = sym_frames(N)
        FRAME_CLASS[0] = Frame
        if falsy == "mixed":
            frames = [FalsyFrame(f.pos, f.valid) if i % 2 == 0 else f for i, f in enumerate(frames)]
        if falsy == "none-validator":
            # "every validator": one that answers True or nothing at all
            tk = make_tokenizer(core, P, mode, with_init, val=lambda f: True if f.valid else None)
        else:
            tk = make_tokenizer(core, P, mode, with_init)
        src = Src(frames)
        out = {}
        try:
            if delivery == "list":
                toks = tk.tokenize(src)
            elif delivery == "generator":
                toks = list(tk.tokenize(src, generator=True))
            else:
                toks = []
                tk.tokenize(src, callback=lambda d, s, en: toks.append((d, s, en)))
        except Exception as ex:
            m = e.model()
            return {"status": "cex", "failing": ["raised %s: %s" % (type(ex).__name__, str(ex)[:80])],
                    "cex": cex_from_model(m, N, P, mode, with_init, {"falsy": falsy} if falsy else None) if m is not None else None}
        ctx = dict(frames=frames, toks=toks, src=src, P=P, mode=mode, e=e, N=N, with_init=with_init, tk=tk)
        conds = oblig(ctx)
        r = discharge(e, conds, lambda m: cex_from_model(m, N, P, mode, with_init, {"falsy": falsy} if falsy else None))
        r["tokens"] = len(toks)
        r["shape"] = [(int(s) if isinstance(s, int) else str(s), int(en) if isinstance(en, int) else str(en)) for _, s, en in toks][:6]
        if r["status"] == "ok" and delivery == "list" and __import__("zlib").crc32(bytes(e.trace)) % 5 == 0:
            # validation of the engine against the implementation: a concrete instance of this path is run on the unmodified
            # package and must give the token boundaries the symbolic run produced
            m = e.model()
            if m is not None:
                c = cex_from_model(m, N, P, mode, with_init, {"falsy": falsy} if falsy else None)
                try:
                    _, ctoks, _ = replay_tokens(c)
                    same = [(s, en) for _, s, en in ctoks] == [(s, en) for _, s, en in toks]
                except Exception:
                    same = False
                r["validated_against_impl"] = same
        return r
    return path


def run_bmc(rep, core, name, N, modes, inits, oblig, replay_fn, delivery="list", timeout_ms=20000, deadline_s=None, falsy=False):
    """explores every (mode, init) configuration; replays each distinct counterexample class.
    replay_fn(cex) -> list of (key, what) failures observed on the real code (empty if not reproduced)."""
    for with_init in inits:
        for mode in modes:
            hn = "%s[N<=%d,mode=%d,%s]" % (name, N, mode, "init_min<=1" if with_init == "le1" else "init" if with_init else "noinit")
            ex = explore(bmc_harness(core, N, mode, with_init, oblig, delivery, falsy), timeout_ms=timeout_ms,
                         deadline_s=deadline_s)
            rep.add_exploration(hn, ex, bounds={"frames": N, "mode": mode, "initial_phase_symbolic": with_init})
            handle_cex(rep, hn, ex, replay_fn)


def handle_cex(rep, hn, ex, replay_fn, limit=40, ideal=False):
    VALIDATE[0] = replay_fn if VALIDATE[0] is None else VALIDATE[0]
    seen = 0
    confirmed = 0
    import time as _time
    t0 = _time.time()
    for r in ex.results:
        if r["status"] != "cex":
            continue
        seen += 1
        if seen > limit or confirmed >= 3 or _time.time() - t0 > 90:
            break
        c = r.get("cex")
        if c is None:
            rep.harness_errors.append("%s: counterexample path without model (%s)" % (hn, r.get("failing")))
            continue
        from ..engine import _arm, PathBudget
        try:
            _arm(10)
            try:
                fails = replay_fn(c)
            finally:
                _arm(0)
        except PathBudget:
            fails = [("%s: the real code does not terminate on the replayed input" % rep.prop,
                      "replay of %s did not finish within 10 s on the unmodified package" % (c,))]
        rep.replays_validated += 1
        if not fails and ideal:
            rep.artefacts.append({"harness": hn, "model": c, "failing": r.get("failing"),
                                  "note": "model does not reproduce under IEEE arithmetic (rational idealisation); inconclusive"})
            continue
        if not fails:
            rep.unreproduced.append({"harness": hn, "model": c, "failing": r.get("failing")})
            continue
        confirmed += 1
        for key, what in fails:
            rep.add_violation(key, what, c)


# ------------------------------------------------------------ inductive step
def Rdef(R, V, carry, i):
    prev = z3.If(i == 0, carry, R[i - 1])
    return R[i] == z3.If(V[i], 0, prev + 1)


def inv03(s, j):
    """Inv03 of DESIGN §5 (contains Inv01 and Inv02), extended to the initial phase (state POSSIBLE_NOISE, reachable only
    when init_min > 1).  s: dict of z3 terms, j: Skolem index.  Bd is the silence bound of the statement:
    mcs, or max(mcs, init_max_silence) when init_min > 1."""
    st, L, sil, start, cur, contig, P, V, R, carry, mx, ms, last_end, prev_cut = (
        s[k] for k in "st L sil start cur contig P V R carry mx ms last_end prev_cut".split())
    im, ims, ic = s["im"], s["ims"], s["ic"]
    Bd = z3.If(im > 1, z3.If(ims > ms, ims, ms), ms)

    def inr(i):
        return z3.And(0 <= i, i < L)
    return z3.And(
        L >= 0, st >= 0, st <= 3, sil >= 0, carry >= 0, carry <= ms,
        z3.Implies(st == 0, L == 0),
        z3.Implies(st != 0, z3.And(start + L == cur + 1, start >= 0, last_end < start, L < mx)),
        last_end <= cur, cur >= -1,
        z3.Implies(contig, z3.And(st != 0, st != 2, prev_cut, start == last_end + 1)),
        z3.Implies(z3.Not(contig), carry == 0),
        z3.Implies(z3.And(st != 0, L == 0), contig),
        z3.Implies(st == 3, z3.And(sil == 0, z3.Implies(L > 0, z3.And(V[L - 1], R[L - 1] == 0)),
                                   z3.Implies(L == 0, carry == 0))),
        z3.Implies(st == 1, z3.And(sil >= 1, sil <= ms, z3.Implies(L > 0, R[L - 1] == sil),
                                   z3.Implies(L == 0, carry == sil),
                                   z3.Implies(sil < L, V[L - 1 - sil]), z3.Implies(sil >= L, contig))),
        # initial phase
        z3.Implies(st == 2, z3.And(im > 1, L >= 1, ic >= 1, ic < im, sil <= ims, R[L - 1] == sil, sil < L, V[0],
                                   z3.Implies(inr(j), R[j] <= ims))),
        z3.Implies(z3.And(st == 2, sil < L, L - 1 - sil >= 0), Rdef(R, V, carry, L - 1 - sil)),
        z3.Implies(z3.And(st == 2, sil < L), V[L - 1 - sil]),
        z3.Implies(z3.And(st == 2, inr(j), j >= L - sil), z3.And(z3.Not(V[j]), R[j] == sil - (L - 1 - j))),
        z3.Implies(inr(j), z3.And(P[j] == start + j, R[j] <= Bd, Rdef(R, V, carry, j))),
        z3.Implies(L > 0, z3.And(Rdef(R, V, carry, L - 1), Rdef(R, V, carry, z3.IntVal(0)))),
        z3.Implies(z3.And(st == 1, sil < L, L - 1 - sil >= 0), Rdef(R, V, carry, L - 1 - sil)),
        z3.Implies(z3.And(st == 1, inr(j), j >= L - sil), z3.And(z3.Not(V[j]), R[j] == sil - (L - 1 - j))),
        z3.Implies(z3.And(L > 0, z3.Not(V[0])), contig),
    )


def istep_harness(core, mode, kind, goals_for, with_init=True):
    """one real transition (_process(frame) or _post_process()) from an arbitrary state satisfying Inv03.
    goals_for(tokinfo) selects the step obligations of the property ('c01' | 'c02' | 'c03')."""
    def path(e):
        mn, mx, ms_raw = I("min_length"), I("max_length"), I("mcs")
        e.assume(z3.And(mn >= 1, mn <= mx, ms_raw < mx))
        ms = z3.If(ms_raw < 0, 0, ms_raw)          # the bound of the statement: a negative tolerance tolerates nothing
        if with_init:
            im, ims = I("init_min"), I("init_max_silence")
            e.assume(z3.And(im < mx, ims >= 0))
            tk = core.StreamTokenizer(validator, SymInt(mn), SymInt(mx), SymInt(ms_raw), init_min=SymInt(im), init_max_silence=SymInt(ims), mode=mode)
        else:
            im, ims = z3.IntVal(0), z3.IntVal(0)
            tk = core.StreamTokenizer(validator, SymInt(mn), SymInt(mx), SymInt(ms_raw), mode=mode)
        Bd = z3.If(im > 1, z3.If(ims > ms, ims, ms), ms)
        tk._reinitialize()
        s = dict(st=I("st"), L=I("L"), sil=I("sil"), start=I("start"), cur=I("cur"), contig=z3.Bool("contig"),
                 P=z3.Array("P", z3.IntSort(), z3.IntSort()), V=z3.Array("V", z3.IntSort(), z3.BoolSort()),
                 R=z3.Array("R", z3.IntSort(), z3.IntSort()), carry=I("carry"), mx=mx, ms=ms,
                 last_end=I("last_end"), prev_cut=z3.Bool("prev_cut"), im=im, ims=ims, ic=I("ic"))
        j = I("j")
        e.assume(inv03(s, j))
        tk._state = SymInt(s["st"])
        tk._data = GList(s["L"], s["P"], s["V"], s["R"], s["carry"])
        tk._silence_length = SymInt(s["sil"])
        tk._start_frame = SymInt(s["start"])
        tk._current_frame = SymInt(s["cur"])
        tk._init_count = SymInt(s["ic"])
        tk._contiguous_token = SymBool(s["contig"])
        tk._current_frame += 1
        try:
            if kind == "frame":
                tok = tk._process(Frame(tk._current_frame, SymBool(z3.Bool("v"))))
            else:
                tok = tk._post_process()
        except Exception as ex:
            return {"status": "not_inductive", "failing": ["raised %s" % type(ex).__name__]}
        d2 = tk._data
        if isinstance(d2, list):
            frames, d2 = d2, GList(z3.IntVal(0), s["P"], s["V"], s["R"], None)
        elif isinstance(d2, GList):
            frames = []
        else:
            return {"status": "not_inductive", "failing": ["buffer became %s" % type(d2).__name__]}
        goals = {}
        le2, pc2, carry2 = s["last_end"], s["prev_cut"], s["carry"]
        if tok is not None:
            data, ts, te = tok
            if not isinstance(data, GList):
                return {"status": "not_inductive", "failing": ["token data of unexpected type"]}
            ts, te = toint(ts), toint(te)
            n = data.n
            inj = z3.And(0 <= j, j < n)
            w = I("w")
            goals.update({
                ("c01", "start after previous end"): ts > s["last_end"],
                ("c01", "end = start+len-1"): te == ts + n - 1,
                ("c01", "non-empty"): n >= 1,
                ("c01", "bounds"): z3.And(ts >= 0, te <= toint(tk._current_frame)),
                ("c01", "frame j is stream[start+j]"): z3.Implies(inj, data.P[j] == ts + j),
                ("c02", "len <= max_length"): n <= mx,
                ("c02", "short only as remainder"): z3.Implies(
                    n < mn, z3.And(z3.BoolVal(not (mode & 2)), s["prev_cut"], ts == s["last_end"] + 1)),
                ("c03", "run[j] <= mcs (max(mcs, init_max_silence) with an initial phase)"): z3.Implies(inj, data.R[j] <= Bd),
                ("c03", "first valid unless continuation"): z3.Or(data.V[0], s["contig"]),
                ("c03", "some valid frame"): z3.Exists([w], z3.And(0 <= w, w < n, data.V[w])),
            })
            if mode & 4:
                goals[("c03", "last valid unless cut")] = z3.Or(n == mx, data.V[n - 1])
            le2 = te
            pc2 = (n == mx)
            carry2 = z3.If(tobool(tk._contiguous_token), data.R[n - 1], 0)
        if d2.carry is None:
            d2.carry = carry2 if tok is not None else z3.If(tobool(tk._contiguous_token), s["carry"], 0)
        for f in frames:
            d2.append(f)
        if kind == "frame":
            s2 = dict(st=toint(tk._state), L=d2.n, sil=toint(tk._silence_length), start=toint(tk._start_frame),
                      cur=toint(tk._current_frame), contig=tobool(tk._contiguous_token), P=d2.P, V=d2.V, R=d2.R,
                      carry=d2.carry, mx=mx, ms=ms, last_end=le2, prev_cut=pc2, im=im, ims=ims, ic=toint(tk._init_count))
            goals[("inv", "Inv03 preserved")] = inv03(s2, j)
        sel = {k: g for k, g in goals.items() if k[0] in goals_for or k[0] == "inv"}
        names = list(sel)
        r, m = e.refute(z3.And(*sel.values()) if sel else z3.BoolVal(True))
        if r == "unsat":
            return {"status": "ok", "obligations": len(names), "token": tok is not None}
        if r == "sat":
            failing = [" / ".join(k) for k in names if not z3.is_true(m.eval(sel[k], model_completion=True))]
            pre = {str(d): str(m[d]) for d in m.decls() if d.name() in
                   ("st", "L", "sil", "carry", "contig", "v", "mcs", "max_length", "min_length", "start", "cur", "last_end", "prev_cut", "init_min", "init_max_silence", "ic")}
            return {"status": "not_inductive", "failing": failing, "pre_state": pre}
        return {"status": "unknown"}
    return path


def run_istep(rep, core, goals_for, timeout_ms=30000):
    """returns True iff every step (4 modes x {frame, end-of-stream}) closed with all queries unsat"""
    closed = True
    detail = []
    for mode in MODES:
        for kind in ("frame", "end"):
            hn = "istep[mode=%d,%s]" % (mode, kind)
            ex = explore(istep_harness(core, mode, kind, goals_for), workers=1, timeout_ms=timeout_ms)
            rep.add_exploration(hn, ex, bounds={"steps": 1, "pre_state": "arbitrary state satisfying Inv03", "stream_length": "unbounded"})
            bad = [r for r in ex.results if r["status"] != "ok"]
            if bad or not ex.exhausted:
                closed = False
                detail.append({"harness": hn, "failing": bad[0].get("failing"), "pre_state": bad[0].get("pre_state")} if bad else {"harness": hn, "failing": "not exhausted"})
    # base case: _reinitialize() from any state gives Inv03 (checked concretely on the symbolic object)
    rep.inductive = {"closed": closed, "invariant": "Inv03 (DESIGN §5 C03 and §10.5; contains Inv01, Inv02); all accepted parameter tuples incl. symbolic init_min / init_max_silence",
                     "not_inductive_at": detail[:4]}
    return closed


def base_case(core):
    """Inv03 holds after _reinitialize() whatever the earlier state: fields it establishes are read back."""
    tk = core.StreamTokenizer(validator, 1, 1, 0)
    tk._state = 3
    tk._data = ["junk"]
    tk._contiguous_token = True
    tk._current_frame = 99
    tk._reinitialize()
    return tk._state == 0 and tk._data == [] and tk._contiguous_token is False and tk._current_frame == -1
