"""C12 - every observer gets every detection exactly once, in order; all threads end.
S-shape: the real TokenizerWorker / Worker threads under the cooperative scheduler; thread interleavings and queue-wait
time-outs are forked exhaustively within the pre-emption bound, window activity bits are symbolic."""
import z3

from ..engine import explore, SxControl
from ..values import SymBool
from ..stubs import sched as S
from .. import loader
from . import thr, tok

BOUNDS = {"quick": [dict(K=3, obs=1, pre=2, to=1), dict(K=2, obs=2, pre=1, to=1, log=True), dict(K=4, obs=1, pre=1, to=1, log=True),
                    dict(K=3, obs=1, pre=1, to=1, log=True, printer=True), dict(K=3, obs=1, pre=2, to=1, onstart=True, flags=(True, False)),
                    dict(K=4, obs=1, pre=1, to=1, flags=(False, True)),
                    dict(K=3, obs=1, pre=1, to=1, spw=2), dict(K=3, obs=1, pre=1, to=1, nojoin=True),
                    dict(K=70, obs=1, pre=0, to=1, loud=True), dict(K=260, obs=1, pre=0, to=1, loud=True),
                    dict(K=2, obs=1, pre=1, to=1, bad=True), dict(K=3, obs=1, pre=1, to=1, manual=True, onstart=True),
                    dict(K=6, obs=1, pre=0, to=0, alias="eth"), dict(K=6, obs=1, pre=0, to=0, alias="energy_threshold")],
          "thorough": [dict(K=6, obs=1, pre=2, to=2), dict(K=3, obs=2, pre=2, to=1, log=True), dict(K=5, obs=1, pre=3, to=1), dict(K=2, obs=3, pre=1, to=0), dict(K=3, obs=3, pre=0, to=1),
                       dict(K=7, obs=1, pre=1, to=1, log=True), dict(K=3, obs=1, pre=2, to=1, log=True, printer=True),
                       dict(K=4, obs=1, pre=2, to=1, onstart=True, flags=(True, False)), dict(K=5, obs=1, pre=1, to=1, flags=(False, True)),
                       dict(K=4, obs=1, pre=2, to=1, spw=2), dict(K=3, obs=2, pre=1, to=1, spw=2), dict(K=4, obs=1, pre=2, to=1, nojoin=True), dict(K=2, obs=2, pre=1, to=1, nojoin=True),
                       dict(K=70, obs=2, pre=0, to=1, loud=True), dict(K=100, obs=1, pre=1, to=0, loud=True), dict(K=600, obs=1, pre=0, to=1, loud=True),
                       dict(K=2, obs=2, pre=2, to=1, bad=True), dict(K=4, obs=1, pre=2, to=1, manual=True, onstart=True), dict(K=3, obs=2, pre=1, to=1, manual=True, onstart=True),
                       dict(K=11, obs=2, pre=1, to=0, alias="eth"), dict(K=11, obs=1, pre=1, to=1, alias="energy_threshold")]}


class RecLogger:
    def __init__(self):
        self.lines = []

    def info(self, msg, *a):
        self.lines.append(str(msg))

    warning = error = debug = info


def sig(regs):
    return [(round(r.meta.start * thr.SR), round(r.meta.end * thr.SR), bytes(r.data)) for r in regs]


def audio_and_kw(K, flags, spw, loud=False):
    """spw=2: two-sample windows and an odd number of samples, i.e. the last window is a partial one"""
    data = thr.tagged_audio(K, spw)
    if spw > 1:
        data = data[:-thr.BPS]
    skw = dict(thr.SPLIT_KW, drop_trailing_silence=flags[0], strict_min_dur=flags[1], max_dur=0.2 if any(flags) else thr.SPLIT_KW["max_dur"], min_dur=0.2 if any(flags) else thr.SPLIT_KW["min_dur"])
    if spw > 1:
        skw = dict(skw, min_dur=skw["min_dur"] * spw, max_dur=skw["max_dur"] * spw, max_silence=skw["max_silence"] * spw)
    if loud:
        # a long, entirely active stream cut into one-window detections: many messages for a slow observer
        skw = dict(skw, min_dur=0.1, max_dur=0.1, max_silence=0)
    return data, skw


ALIAS_ETH = 30


def energy_audio(K):
    """concrete 16-bit windows whose energy is about 60, 40 and -infinity dB in turn: with the threshold ALIAS_ETH (30) the 40 dB windows
    are active, with the default threshold (50) they are not - a worker that loses the threshold keyword finds other detections"""
    import struct
    return b"".join(struct.pack("<h", (1000, 100, 0, 100, 0)[k % 5]) for k in range(K))


def run_main(s, tw, allobs, obs, nojoin, manual=False):
    """what the main thread does after building the workers"""
    if manual:
        # workers are threads: started one by one, the tokenizer first
        tw.start()
        for o in allobs:
            o.start()
    else:
        tw.start_all()
    killed = []
    if nojoin:
        killed = s.interpreter_exit()
    else:
        tw.join()
        for o in allobs:
            o.join()
    return ("done", [[(i, sig([r])[0]) for i, r in o.got] for o in obs], [(d.id, d.start, d.end, d.duration) for d in tw.detections],
            all(t.finished for t in s.threads), killed)


def harness(L, K, nobs, max_pre, max_to, log=False, printer=False, onstart=False, flags=(False, False), spw=1, nojoin=False, loud=False, bad=False, manual=False, alias=None):
    W, core, util = L.modules["workers"], L.modules["core"], L.modules["util"]
    Obs = thr.make_observer_class(W)
    data, skw = audio_and_kw(K, flags, spw, loud)
    if alias:
        data = energy_audio(K)

    def path(e):
        s = S.Sched(e, max_timeouts=max_to, max_preempt=max_pre)
        s.yield_on_start = onstart
        s.max_steps = max(s.max_steps, 60 * K)
        val = (lambda frame: True) if loud else thr.window_validator(data, spw)
        meta = dict(K=K, obs=nobs, pre=max_pre, to=max_to, log=log, printer=printer, onstart=onstart, flags=list(flags), spw=spw, nojoin=nojoin, loud=loud, bad=bad, manual=manual, alias=alias)
        if bad:
            skw_ = dict(skw, min_dur=skw["max_dur"] * 2)      # min_dur > max_dur: not a valid parameter set
        else:
            skw_ = skw
        e.on_budget = lambda m: mk(m, meta, s)
        outcome = None
        obs = []
        try:
            reader = util.AudioReader(data, block_dur=0.1 * spw, sr=thr.SR, sw=thr.SW, ch=thr.CH)
            obs = [Obs() for _ in range(nobs)]
            printed = []
            allobs = list(obs)
            if printer:
                W.print = lambda *a, **k: printed.append(" ".join(str(x) for x in a))
                allobs.append(W.PrintWorker("{id} {start} {end}", "%S"))
            try:
                tw = W.TokenizerWorker(reader, allobs, logger=RecLogger() if log else None, **dict(skw_, **({alias: ALIAS_ETH} if alias else {"validator": val})))
            except ValueError:
                tw = None
            if tw is None:
                outcome = ("rejected",)
            else:
                s.private.add(id(tw._inbox))
                outcome = run_main(s, tw, allobs, obs, nojoin, manual)
        except (S.Outcome, S.ThreadCrashed) as ex:
            outcome = ("failed", str(ex))
        finally:
            s.cleanup()
        if bad or outcome[0] == "rejected":
            # invalid parameters: refused when the worker is built (nothing started), or - if a worker was built and started -
            # everything must still come to an end
            fails = [] if (bad and outcome[0] == "rejected") else ["a valid parameter set is rejected"] if outcome[0] == "rejected" else \
                [outcome[1]] if outcome[0] == "failed" else [] if outcome[3] else ["some worker thread did not terminate"]
            if not fails:
                return {"status": "ok", "outcome": outcome[0]}
            return {"status": "cex", "failing": fails[:2], "cex": mk(e.model(), meta, s)}
        if alias:
            want = sig(list(core.split(data, sr=thr.SR, sw=thr.SW, ch=thr.CH, analysis_window=0.1 * spw, **dict(skw, **{alias: ALIAS_ETH}))))
            if len(want) < 2:
                raise AssertionError("alias configuration: the reference split() finds %d detections, at least 2 expected" % len(want))
        else:
            want = sig(list(core.split(data, sr=thr.SR, sw=thr.SW, ch=thr.CH, analysis_window=0.1 * spw, validator=(lambda frame: True) if loud else thr.window_validator(data, spw), **skw)))
        fails = judge(outcome, want)
        if printer and not fails:
            exp = ["%d %.3f %.3f" % (i, a / thr.SR, b / thr.SR) for i, (a, b, _) in enumerate(want, 1)]
            if printed != exp:
                fails = ["PrintWorker printed %s, expected %s" % (printed, exp)]
        if not fails:
            out = {"status": "ok", "detections": len(want), "schedule_len": len(s.log)}
            if __import__("zlib").crc32(bytes(e.trace)) % 61 == 0:
                mm = e.model()
                if mm is not None:
                    out["instance"] = {"windows": tok.stream_str(thr.bits_from_model(mm, K)), "schedule": compact([list(x) for x in s.log])}
            return out
        m = e.model()
        return {"status": "cex", "failing": fails[:2], "cex": mk(m, meta, s)}
    return path


def judge(outcome, want):
    if outcome[0] != "done":
        return [outcome[1]]
    _, got, dets, finished, killed = outcome
    fails = []
    if killed:
        fails.append("the program ends while %s still have work to do (daemon threads die with the main thread)" % killed)
    elif not finished:
        fails.append("some worker thread did not terminate")
    ids = [d[0] for d in dets]
    if ids != list(range(1, len(ids) + 1)):
        fails.append("detection ids are %s" % ids)
    if [(round(d[1] * thr.SR), round(d[2] * thr.SR)) for d in dets] != [(a, b) for a, b, _ in want]:
        fails.append("worker detections %s differ from split() %s" % ([(d[1], d[2]) for d in dets], [(a, b) for a, b, _ in want]))
    for k, g in enumerate(got):
        if [i for i, _ in g] != list(range(1, len(want) + 1)) or [x for _, x in g] != want:
            fails.append("observer %d processed %s, expected ids 1..%d of %s" % (k, [(i, x[:2]) for i, x in g], len(want), [w[:2] for w in want]))
    return fails


def mk(m, meta, s):
    c = dict(meta)
    c["valid"] = [True] * meta["K"] if (meta.get("loud") or meta.get("alias")) else thr.bits_from_model(m, meta["K"]) if m is not None else [False] * meta["K"]
    c["schedule"] = [list(x) for x in s.log]
    return c


# ------------------------------------------------------------------ replay
def replay_fn(c):
    """the same schedule, concretely, on the unmodified package: the real workers module is loaded over the cooperative
    scheduler without any symbolic value (concrete validator), schedule decisions are read from the script"""
    from ..engine import Engine
    L = thr.load_real()
    W, core, util = L["workers"], L["core"], L["util"]
    Obs = thr.make_observer_class(W)
    K = c["K"]
    fl = c.get("flags") or [False, False]
    spw = c.get("spw", 1)
    loud = bool(c.get("loud"))
    data, skw = audio_and_kw(K, fl, spw, loud)
    alias = c.get("alias")
    if alias:
        data = energy_audio(K)
    val = (lambda frame: True) if loud else thr.concrete_validator(data, c["valid"], spw)
    s = S.Sched(None, max_timeouts=c["to"] + 50, max_preempt=10 ** 6)
    s.yield_on_start = bool(c.get("onstart"))
    s.max_steps = max(s.max_steps, 60 * K)
    s.script = [tuple(x) for x in c["schedule"]]
    outcome = None
    try:
        reader = util.AudioReader(data, block_dur=0.1 * spw, sr=thr.SR, sw=thr.SW, ch=thr.CH)
        obs = [Obs() for _ in range(c["obs"])]
        printed = []
        allobs = list(obs)
        if c.get("printer"):
            W.print = lambda *a, **k: printed.append(" ".join(str(x) for x in a))
            allobs.append(W.PrintWorker("{id} {start} {end}", "%S"))
        skw_ = dict(skw, min_dur=skw["max_dur"] * 2) if c.get("bad") else skw
        try:
            tw = W.TokenizerWorker(reader, allobs, logger=RecLogger() if c.get("log") else None, **dict(skw_, **({alias: ALIAS_ETH} if alias else {"validator": val})))
        except ValueError:
            tw = None
        if tw is None:
            outcome = ("rejected",)
        else:
            s.private.add(id(tw._inbox))
            outcome = run_main(s, tw, allobs, obs, bool(c.get("nojoin")), bool(c.get("manual")))
    except (S.Outcome, S.ThreadCrashed) as ex:
        outcome = ("failed", str(ex))
    finally:
        s.cleanup()
    if c.get("bad") or outcome[0] == "rejected":
        if c.get("bad") and outcome[0] == "rejected":
            return []
        why = "a valid parameter set is rejected" if outcome[0] == "rejected" else outcome[1] if outcome[0] == "failed" else None if outcome[3] else "some worker thread did not terminate"
        if why is None:
            return []
        return [("C12: workers built with invalid parameters do not come to an end", "min_dur > max_dur, %d observer(s), schedule %s: %s" % (c["obs"], compact(c["schedule"]), why))]
    if alias:
        want = sig(list(core.split(data, sr=thr.SR, sw=thr.SW, ch=thr.CH, analysis_window=0.1 * spw, **dict(skw, **{alias: ALIAS_ETH}))))
    else:
        want = sig(list(core.split(data, sr=thr.SR, sw=thr.SW, ch=thr.CH, analysis_window=0.1 * spw, validator=(lambda frame: True) if loud else thr.concrete_validator(data, c["valid"], spw), **skw)))
    fails = judge(outcome, want)
    if c.get("printer") and not fails:
        exp = ["%d %.3f %.3f" % (i, a / thr.SR, b / thr.SR) for i, (a, b, _) in enumerate(want, 1)]
        if printed != exp:
            fails = ["PrintWorker printed %s, expected %s" % (printed, exp)]
    if not fails:
        return []
    kind = "deadlock or non-termination" if outcome[0] != "done" else ("thread left running" if "terminate" in fails[0] else "workers do not finish their work by themselves" if "program ends" in fails[0] else "observer misses, repeats or reorders detections")
    return [("C12: " + kind, "windows %s, %d observer(s), schedule %s: %s" % (tok.stream_str(c["valid"]), c["obs"], compact(c["schedule"]), fails[0]))]


def compact(schedule):
    return " ".join("%s%s" % (n.split("#")[0][:3] + n.split("#")[-1] if "#" in n else n, "!" if to else "") for n, to in schedule)


def replay(c):
    f = replay_fn(c)
    return (bool(f), f[0][1] if f else "property holds on the real code for this schedule")


def run(rep):
    tok.VALIDATE[0] = replay_fn
    L = thr.load()
    rep.hashes = L.hashes
    cfgs = BOUNDS[rep.tier]
    rep.bounds = {"configurations": cfgs,
                  "meaning": "K one-sample windows with symbolic activity bits; obs recording observers; at most `pre` pre-emptive context switches per schedule (non-pre-emptive switches unbounded); at most `to` spurious queue time-outs per worker",
                  "reduction": "get_nowait on the tokenizer's own inbox is not a scheduling point when no other thread touches that queue in the run"}
    rep.explanation = ("Real Worker.run/_get_message/stop/send and TokenizerWorker.run/read/_notify_observers/start_all executed as real threads "
                       "under a baton scheduler; every scheduling decision and time-out firing is forked through the engine, window activity is "
                       "symbolic (path feasibility by z3). Per schedule: observers' logs == detections == split() on the same bits; all threads "
                       "finished; no deadlock.")
    rep.assumptions = ["threads interleave only at queue operations and joins (GIL switch points inside a queue operation are not modelled)",
                       "time-outs fire only on an empty queue, at most `to` times per worker", "datetime.now() left real"]
    rep.assumptions.append("'main thread returns without joining': the interpreter waits for the non-daemon threads, then daemon threads die where they are")
    rep.outside = ["more windows / observers / pre-emptions than stated", "real-time effects"]
    for cf in cfgs:
        hn = "sched[K=%d,obs=%d,pre=%d,to=%d%s%s%s%s%s%s]" % (cf["K"], cf["obs"], cf["pre"], cf["to"], ",logger" if cf.get("log") else "", ",PrintWorker" if cf.get("printer") else "",
                                                            ",start-is-a-scheduling-point" if cf.get("onstart") else "", ",flags=%s" % (cf["flags"],) if cf.get("flags") else "",
                                                            ",2-sample windows with a partial last one" if cf.get("spw", 1) > 1 else "", ",main thread returns without joining" if cf.get("nojoin") else "") + (",every window a detection" if cf.get("loud") else "") + (",min_dur > max_dur" if cf.get("bad") else "") + (",tokenizer started before the observers" if cf.get("manual") else "") + (",energy detection with %s=%d instead of a validator" % (cf["alias"], ALIAS_ETH) if cf.get("alias") else "")
        ex = explore(harness(L, cf["K"], cf["obs"], cf["pre"], cf["to"], cf.get("log", False), cf.get("printer", False), cf.get("onstart", False),
                             tuple(cf.get("flags", (False, False))), cf.get("spw", 1), cf.get("nojoin", False), cf.get("loud", False), cf.get("bad", False), cf.get("manual", False), cf.get("alias")),
                     max_decisions=3000, path_wall_s=30)
        rep.add_exploration(hn, ex, bounds=cf)
        tok.handle_cex(rep, hn, ex, replay_fn)
