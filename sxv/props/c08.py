"""C08 - detection is online: hand-over moment, lazy reading, prefix consistency, delivery-mode equivalence.
B + D on the real tokenize(); the split() half lives in c08_split (bytes harness)."""
import z3

from ..engine import explore
from ..values import SymBool, SymInt, tobool, toint
from .. import loader, oracles
from . import tok

BOUNDS = {"quick": dict(N=5, N_init=4), "thorough": dict(N=8, N_init=7)}


def consume(tk, frames, mode):
    """run one delivery mode, recording (token, reads at hand-over, nones at hand-over)"""
    src = tok.Src(frames)
    out = []
    if mode == "generator":
        for t in tk.tokenize(src, generator=True):
            out.append((t, src.reads, src.nones))
    elif mode == "callback":
        tk.tokenize(src, callback=lambda d, s, en: out.append(((d, s, en), src.reads, src.nones)))
    else:
        for t in tk.tokenize(src):
            out.append((t, None, None))
    return out, src


def harness(core, N, mode, with_init, falsy=False):
    def path(e):
        P = tok.sym_params(e, with_init)
        frames = tok.sym_frames(N)
        if falsy:
            # "frames" that are falsy objects (0, b"", an empty list would be): frames like any other, not the end of the stream
            frames = [tok.FalsyFrame(f.pos, f.valid) if (falsy is True or i % 2) else f for i, f in enumerate(frames)]
        xtra = {"falsy": falsy} if falsy else None
        V = [tobool(f.valid) for f in frames]
        mx, ms = P["mx"], P["ms0"]
        conds = {}
        try:
            gen, gsrc = consume(tok.make_tokenizer(core, P, mode, with_init), frames, "generator")
            cb, csrc = consume(tok.make_tokenizer(core, P, mode, with_init), frames, "callback")
            lst, lsrc = consume(tok.make_tokenizer(core, P, mode, with_init), frames, "list")
            pref = []
            for p in range(N):
                pref.append(consume(tok.make_tokenizer(core, P, mode, with_init), frames[:p], "generator")[0])
        except Exception as ex:
            m = e.model()
            return {"status": "cex", "failing": ["raised %s" % type(ex).__name__],
                    "cex": tok.cex_from_model(m, N, P, mode, with_init, xtra) if m is not None else None}
        # (i) hand-over moment
        for k, ((data, s, en), reads, nones) in enumerate(gen):
            L = len(data)
            cut = z3.And(L == mx, reads == en + 1)
            flush = z3.BoolVal(nones == 1 and reads == N + 1)
            if 1 <= reads <= N:
                excess = z3.And(reads >= en + 2, reads <= en + ms + 2, z3.Not(V[reads - 1]))
            else:
                excess = z3.BoolVal(False)
            conds[("handover", k)] = z3.Or(cut, excess, flush)
        # (ii) three delivery modes identical; callback fires at the same read count
        same = len(gen) == len(cb) == len(lst)
        conds[("modes-count", 0)] = same
        if same:
            for k in range(len(gen)):
                (d1, s1, e1), r1, _ = gen[k]
                (d2, s2, e2), r2, _ = cb[k]
                (d3, s3, e3), _, _ = lst[k]
                conds[("modes", k)] = (s1 == s2 == s3 and e1 == e2 == e3 and len(d1) == len(d2) == len(d3)
                                       and all(a is b and b is c for a, b, c in zip(d1, d2, d3)) and r1 == r2)
        # (iii) end of stream requested exactly once
        for nm, src in (("gen", gsrc), ("cb", csrc), ("list", lsrc)):
            conds[("eos-once", nm)] = src.nones == 1 and src.reads == N + 1
        # (iv) prefix consistency
        T = [(s, en) for (d, s, en), _, _ in gen]
        for p, Tp in enumerate(pref):
            ok = len(Tp) <= len(T)
            if ok:
                for k, ((d, s, en), reads, nones) in enumerate(Tp):
                    if k < len(Tp) - 1:
                        ok = ok and (s, en) == T[k]
                    else:
                        ok = ok and s == T[k][0] and (en == T[k][1] or (nones == 1 and en <= T[k][1]))
            conds[("prefix", p)] = ok
        r = tok.discharge(e, conds, lambda m: tok.cex_from_model(m, N, P, mode, with_init, xtra))
        r["tokens"] = len(gen)
        return r
    return path


def concrete_failures(c):
    ak = loader.real_auditok()
    v, N = c["valid"], len(c["valid"])
    fz = c.get("falsy")
    frames = [(oracles.CFalsyFrame if (fz is True or (fz and i % 2)) else oracles.CFrame)(i, b) for i, b in enumerate(v)]

    def mk():
        return ak.StreamTokenizer(lambda f: f.valid, c["min_length"], c["max_length"], c["mcs"], init_min=c.get("init_min", 0),
                                  init_max_silence=c.get("init_max_silence", 0), mode=c["mode"])

    def cons(fr, how):
        src = oracles.CSource(fr)
        out = []
        if how == "generator":
            for t in mk().tokenize(src, generator=True):
                out.append((t, src.reads, src.nones))
        elif how == "callback":
            mk().tokenize(src, callback=lambda d, s, e: out.append(((d, s, e), src.reads, src.nones)))
        else:
            out = [(t, None, None) for t in mk().tokenize(src)]
        return out, src
    fails = []
    gen, gsrc = cons(frames, "generator")
    cb, csrc = cons(frames, "callback")
    lst, lsrc = cons(frames, "list")
    for k, ((d, s, e), reads, nones) in enumerate(gen):
        cut = len(d) == c["max_length"] and reads == e + 1
        flush = nones == 1 and reads == N + 1
        excess = 1 <= reads <= N and e + 2 <= reads <= e + max(c["mcs"], 0) + 2 and not v[reads - 1]
        if not (cut or flush or excess):
            fails.append(("C08: token handed over at the wrong moment", "token %d (%d,%d) handed over after %d reads" % (k, s, e, reads)))
    a = [(s, e, len(d), r) for (d, s, e), r, _ in gen]
    b = [(s, e, len(d), r) for (d, s, e), r, _ in cb]
    l3 = [(s, e, len(d)) for (d, s, e), _, _ in lst]
    if a != b or [x[:3] for x in a] != l3:
        fails.append(("C08: delivery modes differ", "generator %s callback %s list %s" % (a, b, l3)))
    for nm, src in (("generator", gsrc), ("callback", csrc), ("list", lsrc)):
        if src.nones != 1 or src.reads != N + 1:
            fails.append(("C08: end of stream requested %d times" % src.nones, "%s mode: %d reads, %d end-of-stream requests for %d frames" % (nm, src.reads, src.nones, N)))
    T = [(s, e) for (d, s, e), _, _ in gen]
    for p in range(N):
        Tp = cons(frames[:p], "generator")[0]
        ok = len(Tp) <= len(T)
        if ok:
            for k, ((d, s, e), reads, nones) in enumerate(Tp):
                if k < len(Tp) - 1:
                    ok = ok and (s, e) == T[k]
                else:
                    ok = ok and s == T[k][0] and (e == T[k][1] or (nones == 1 and e <= T[k][1]))
        if not ok:
            fails.append(("C08: tokens of a prefix are not consistent with the whole stream", "prefix of %d frames gives %s, whole stream %s" % (p, [(s, e) for (d, s, e), _, _ in Tp], T)))
            break
    return fails


def replay_fn(c):
    try:
        f = concrete_failures(c)
    except Exception as ex:
        return [("tokenize raises %s" % type(ex).__name__, "%s raises %s: %s" % (tok.describe(c), type(ex).__name__, ex))]
    return [(k, tok.describe(c) + ": " + w) for k, w in f[:1]]


def replay(c):
    if c.get("kind") == "split":
        from . import c08_split
        return c08_split.replay(c)
    f = replay_fn(c)
    return (bool(f), f[0][1] if f else "property holds on the real code for this input")


def run(rep):
    tok.VALIDATE[0] = replay_fn
    b = BOUNDS[rep.tier]
    L = loader.load()
    core = L.core
    rep.hashes = L.hashes
    rep.bounds = {"tokenizer": "streams of <= %d frames (<= %d with symbolic initial phase), every prefix of each, unbounded parameters, 4 modes, 3 delivery modes" % (b["N"], b["N_init"])}
    rep.explanation = ("Real tokenize() run 3+N times inside each path on the same symbolic validity bits (generator, callback, list, "
                       "every prefix) with a counting source; hand-over moment, single end-of-stream request, delivery-mode "
                       "equality and prefix consistency are decided by z3 per path over unbounded parameters.")
    rep.assumptions = ["validator is a pure function of the frame", "source.read() does not raise"]
    rep.outside = ["streams longer than the bound"]
    for with_init, N in ((False, b["N"]), (True, b["N_init"])):
        for mode in tok.MODES:
            hn = "online[N<=%d,mode=%d,%s]" % (N, mode, "init" if with_init else "noinit")
            ex = explore(harness(core, N, mode, with_init))
            rep.add_exploration(hn, ex, bounds={"frames": N, "prefixes": N, "mode": mode, "initial_phase_symbolic": with_init})
            tok.handle_cex(rep, hn, ex, replay_fn)
    for falsy in (True, "odd positions"):
        hn = "online[N<=%d,mode=0,noinit,%s]" % (min(b["N"], 4), "all frames falsy objects" if falsy is True else "every other frame a falsy object")
        ex = explore(harness(core, min(b["N"], 4), 0, False, falsy))
        rep.add_exploration(hn, ex)
        tok.handle_cex(rep, hn, ex, replay_fn)
    try:
        from . import c08_split
    except ImportError:
        c08_split = None
        rep.notes.append("split() half not built")
    if c08_split:
        c08_split.run(rep)
