"""C08, split() half: a region is yielded before more than (end + mcs + 2) windows have been pulled from the input,
and nothing is read before the first next().  Same byte-level harness as C05 with a counting source."""
import z3

from ..engine import explore, S
from ..values import SymBool, SymInt, SymRat, toint, tobool
from .. import loader
from . import byt, tok, c05

I = z3.Int
BOUNDS = {"quick": dict(K=4), "thorough": dict(K=6)}


def harness(L, sw, ch, sr, K, mode, with_mr=False, overlap=False):
    bps = sw * ch
    core = L.modules["core"]
    iom = L.modules["io"]

    class Counting(iom.BufferAudioSource):
        def __init__(self, *a, **k):
            super().__init__(*a, **k)
            self.handed = z3.IntVal(0)       # samples handed out so far
            self.calls = 0
            self.nones = 0

        def read(self, size):
            self.calls += 1
            out = super().read(size)
            if out is None:
                self.nones += 1
            else:
                self.handed = S(self.handed + out.length() / bps) if False else S(self.handed + (SymInt(out.length()) // bps).t)
            return out

    def path(e):
        D, data, n, B, P, calls, validator = c05.split_setup(e, core, bps, sr, K)
        meta = dict(sw=sw, ch=ch, sr=sr, K=K, mode=mode, via="source", kind="split", with_mr=with_mr, overlap=overlap)
        src = Counting(data, sr, sw, ch)
        H = B
        inp = src
        if overlap:
            # split() over an AudioReader with overlapping windows: window k needs the samples up to k*H + B and no more
            H = I("H")
            e.assume(z3.And(H >= 1, H < B, n <= B + (K - 1) * H))
            inp = L.modules["util"].AudioReader(src, block_dur=SymRat(B, sr), hop_dur=SymRat(H, sr))
        conds = {}
        extra = {}
        vis = n
        Mq = None
        if with_mr:
            mr, M, Mq = byt.sym_max_read(e, sr)
            extra["max_read"] = mr
            vis = z3.If(M < n, M, n)
        try:
            gen = core.split(inp, min_dur=1, max_dur=1, max_silence=1, drop_trailing_silence=bool(mode & 4), strict_min_dur=bool(mode & 2),
                             analysis_window=c05.split_setup.aw, validator=validator, **extra)
            conds[("nothing read before the first next()", 0)] = src.calls == 0
            i = 0
            while True:
                try:
                    r = next(gen)
                except StopIteration:
                    break
                nfr = len(calls)
                conds[("the reader is not ahead of the window it returned", i)] = z3.Or(
                    src.handed >= vis, src.handed <= ((nfr - 1) * H + B if nfr else 0))
                if overlap:
                    i += 1
                    continue
                st = SymRat.of(r.start)
                ln = r.data.length()
                # region covers windows s .. en where en is the window holding its last sample
                lastw = None
                for kk in range(K + 1):
                    if e.entails(z3.And(st.num * sr * 1 == st.num * sr, st.eqz(SymRat(kk * B, sr)))):
                        lastw = kk
                        break
                if lastw is None:
                    conds[("start is a window boundary", i)] = False
                    break
                s = lastw
                # en = index of the last window covered: smallest en with s*B + len/bps <= (en+1)*B
                endS = s * B + (SymInt(ln) // bps).t
                en = None
                for kk in range(s, K + 1):
                    if e.entails(endS <= (kk + 1) * B):
                        en = kk
                        break
                if en is None:
                    conds[("end within the input", i)] = False
                    break
                flushed = z3.Or(z3.BoolVal(src.nones >= 1), src.handed >= vis)
                conds[("lazy", i)] = z3.Or(flushed, src.handed <= (en + P["ms"] + 2) * B)
                conds[("never beyond the visible data", i)] = src.handed <= vis
                i += 1
            conds[("never beyond the visible data", "end")] = src.handed <= vis
            conds[("end of stream requested once", 0)] = (src.nones == 1) if not with_mr else (src.nones <= 1)
        except Exception as ex:
            return c05.now(e, "split raised %s: %s" % (type(ex).__name__, str(ex)[:80]), D, B, P, calls, meta)
        def mkc(m):
            c = c05.mk(m, D, B, P, calls, meta)
            if Mq is not None:
                c["Mq"] = byt.iv(m, Mq)
            if overlap:
                c["H"] = byt.iv(m, H)
            return c
        return tok.discharge(e, conds, mkc)
    return path


def replay_fn(c):
    ak = loader.real_auditok()
    import auditok.core as rcore
    from auditok import io as rio
    sw, ch, sr, B, n = c["sw"], c["ch"], c["sr"], c["B"], c["n"]
    bps = sw * ch
    if int((c.get("Bq", 4 * B) / (4 * sr)) * sr) != B:
        return []
    data = byt.concrete_bytes(n * bps)

    class Counting(rio.BufferAudioSource):
        handed = 0
        calls = 0
        nones = 0

        def read(self, size):
            self.calls += 1
            out = super().read(size)
            if out is None:
                self.nones += 1
            else:
                self.handed += len(out) // bps
            return out
    src = Counting(data, sr, sw, ch)
    seq = iter([c["min_length"], c["max_length"], c["mcs"]])
    orig = rcore._duration_to_nb_windows
    rcore._duration_to_nb_windows = lambda *a, **k: next(seq)
    calls = []

    def validator(frame):
        calls.append(frame)
        k = len(calls) - 1
        return c["valid"][k] if k < len(c["valid"]) else False
    desc = "split(AudioSource of %d samples, window=%d samples, counts=(%d,%d,%d), mode=%d, decisions=%s)" % (
        n, B, c["min_length"], c["max_length"], c["mcs"], c["mode"], tok.stream_str(c["valid"]))
    extra = {}
    vis = n
    if c.get("with_mr"):
        mrc = byt.max_read_concrete(c["Mq"], sr)
        if mrc is None:
            return []
        extra["max_read"] = mrc[0]
        vis = min(n, mrc[1])
        desc += ", max_read=%r (%d samples)" % mrc
    inp = src
    H = c.get("H", B)
    if c.get("overlap"):
        if int((H / sr) * sr) != H or int((B / sr) * sr) != B:
            return []
        inp = ak.AudioReader(src, block_dur=B / sr, hop_dur=H / sr)
        desc += ", overlapping reader hop=%d" % H
    try:
        gen = ak.split(inp, min_dur=1, max_dur=1, max_silence=1, drop_trailing_silence=bool(c["mode"] & 4), strict_min_dur=bool(c["mode"] & 2),
                       analysis_window=c.get("Bq", 4 * B) / (4 * sr), validator=validator, **extra)
        if src.calls:
            return [("C08: split() reads its input before the first next()", desc + ": %d reads" % src.calls)]
        for r in gen:
            nfr = len(calls)
            if not (src.handed >= vis or src.handed <= ((nfr - 1) * H + B if nfr else 0)):
                return [("C08: the reader pulls input ahead of the window it returns", desc + ": %d windows handed to the tokenizer, %d samples pulled" % (nfr, src.handed))]
            if c.get("overlap"):
                continue
            s = round(r.start * sr / B)
            en = -(-(s * B + len(r.data) // bps) // B) - 1
            if src.handed > vis:
                return [("C08: split() pulls samples beyond max_read from its input", desc + ": %d samples pulled, %d visible" % (src.handed, vis))]
            if not (src.nones >= 1 or src.handed >= vis or src.handed <= (en + c["mcs"] + 2) * B):
                return [("C08: split() pulls more input than needed before yielding a region",
                         desc + ": region windows %d..%d yielded after %d samples were read" % (s, en, src.handed))]
        if src.handed > vis:
            return [("C08: split() pulls samples beyond max_read from its input", desc + ": %d samples pulled, %d visible" % (src.handed, vis))]
        if src.nones > 1 or (src.nones != 1 and not c.get("with_mr")):
            return [("C08: split() requests end of stream %d times" % src.nones, desc)]
    except Exception as ex:
        return [("C08: split raises %s" % type(ex).__name__, desc + ": %s" % ex)]
    finally:
        rcore._duration_to_nb_windows = orig
    return []


def replay(c):
    f = replay_fn(c)
    return (bool(f), f[0][1] if f else "property holds on the real code for this input")


def run(rep):
    tok.VALIDATE[0] = replay_fn
    b = BOUNDS[rep.tier]
    L = loader.load()
    K = b["K"]
    rep.bounds["split"] = "inputs of <= %d analysis windows, n and window size unbounded, counts unbounded, 4 modes, AudioSource input with a counting read()" % K
    for mode in tok.MODES:
        hn = "split-online[K=%d,mode=%d]" % (K, mode)
        ex = explore(harness(L, 2, 1, 10, K, mode))
        rep.add_exploration(hn, ex)
        tok.handle_cex(rep, hn, ex, replay_fn, ideal=True)
    for mode in ((0,) if rep.tier == "quick" else (0, 6)):
        hn = "split-online[K=%d,mode=%d,overlapping reader]" % (K - 1, mode)
        ex = explore(harness(L, 2, 1, 10, K - 1, mode, overlap=True))
        rep.add_exploration(hn, ex)
        tok.handle_cex(rep, hn, ex, replay_fn, ideal=True)
    for mode in ((0,) if rep.tier == "quick" else (0, 6)):
        hn = "split-online[K=%d,mode=%d,max_read]" % (K - 1, mode)
        ex = explore(harness(L, 2, 1, 10, K - 1, mode, with_mr=True))
        rep.add_exploration(hn, ex)
        tok.handle_cex(rep, hn, ex, replay_fn, ideal=True)
