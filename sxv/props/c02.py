"""C02 - token length bounds (I + B) and constructor accept/reject as a closed-form query over Z^6."""
import z3

from ..engine import explore
from ..values import SymInt, tobool
from .. import loader, oracles
from . import tok

BOUNDS = {"quick": dict(N=6, N_init=6), "thorough": dict(N=10, N_init=9)}
I = z3.Int


def oblig(ctx):
    toks, P, mode = ctx["toks"], ctx["P"], ctx["mode"]
    strict = bool(mode & 2)
    conds = {}
    prev = None
    for k, (data, s, en) in enumerate(toks):
        L = len(data)
        conds[("max", k)] = L <= P["mx"]
        adj_cut = z3.BoolVal(False)
        if prev is not None and not strict and isinstance(s, int) and prev[2] + 1 == s:
            adj_cut = len(prev[0]) == P["mx"]
        conds[("min", k)] = z3.Or(L >= P["mn"], adj_cut)
        prev = (data, s, en)
    return conds


def replay_fn(c):
    try:
        frames, toks, src = tok.replay_tokens(c)
    except Exception as ex:
        return [("tokenize raises %s" % type(ex).__name__, "%s raises %s: %s" % (tok.describe(c), type(ex).__name__, ex))]
    fails = oracles.c02_failures(toks, c["min_length"], c["max_length"], bool(c["mode"] & 2))
    out = []
    for f in fails[:1]:
        out.append((classify(c, frames, toks, f), "%s -> tokens %s: %s" % (tok.describe(c), [(s, e) for _, s, e in toks], f)))
    return out


def classify(c, frames, toks, msg):
    """canonical class of a C02 failure, specific enough that a different failure gets a different key"""
    if "> max_length" in msg:
        if c.get("init_min", 0) > 1:
            return "C02: token longer than max_length, grown during the initial phase (init_min > 1)"
        return "C02: token longer than max_length"
    if "strict" in msg:
        return "C02: token shorter than min_length in strict mode"
    k = int(msg.split()[1])
    s = toks[k][1]
    prev_cut = [t for t in toks[:k] if len(t[0]) == c["max_length"]]
    if prev_cut:
        pe = prev_cut[-1][2]
        between = frames[pe + 1:s]
        if between and not any(f.valid for f in between) and not [t for t in toks[:k] if t[1] > pe]:
            return "C02: short token after a cut token and an all-silent discarded continuation (stale continuation flag)"
    return "C02: token shorter than min_length not adjacent to a cut token"


def replay(c):
    if "ctor" in c:
        f = replay_ctor(c)
    else:
        f = replay_fn(c)
    return (bool(f), f[0][1] if f else "property holds on the real code for this input")


# ------------------------------------------------------------- constructor
def accept_formula(mn, mx, ms, im, mode):
    return z3.And(mx > 0, mn > 0, mn <= mx, ms < mx, im < mx, z3.Or(mode == 0, mode == 2, mode == 4, mode == 6))


def ctor_harness(core, concrete_mode=False):
    def path(e):
        mn, mx, ms, im, ims, mode = I("min_length"), I("max_length"), I("mcs"), I("init_min"), I("init_max_silence"), I("mode")
        acc = accept_formula(mn, mx, ms, im, mode)
        pymode = SymInt(mode)
        if concrete_mode:
            # every mode value in a small range as a real int (so that bit tricks in the mode test are executed, not modelled)
            pymode = e.choose(27) - 9
            e.add(mode == pymode)
        try:
            tk = core.StreamTokenizer(tok.validator, SymInt(mn), SymInt(mx), SymInt(ms), init_min=SymInt(im),
                                      init_max_silence=SymInt(ims), mode=pymode)
            outcome, goal = "accepted", acc
        except ValueError:
            outcome, goal = "rejected", z3.Not(acc)
        except Exception as ex:
            outcome, goal = "raised " + type(ex).__name__, z3.BoolVal(False)
        r, m = e.refute(goal)
        if r == "unsat":
            return {"status": "ok", "outcome": outcome}
        if r == "sat":
            vals = {k: m.eval(t, model_completion=True).as_long() for k, t in
                    dict(min_length=mn, max_length=mx, mcs=ms, init_min=im, init_max_silence=ims, mode=mode).items()}
            return {"status": "cex", "failing": ["constructor %s" % outcome], "cex": {"ctor": vals, "outcome": outcome}}
        return {"status": "unknown"}
    return path


def replay_ctor(c):
    ak = loader.real_auditok()
    v = c["ctor"]
    want = (v["max_length"] > 0 and 0 < v["min_length"] <= v["max_length"] and v["mcs"] < v["max_length"]
            and v["init_min"] < v["max_length"] and v["mode"] in (0, 2, 4, 6))
    try:
        ak.StreamTokenizer(str.isupper, v["min_length"], v["max_length"], v["mcs"], v["init_min"], v["init_max_silence"], v["mode"])
        got = "accepted"
    except ValueError:
        got = "rejected"
    except Exception as ex:
        got = "raised " + type(ex).__name__
    if (got == "accepted") == want and got in ("accepted", "rejected"):
        return []
    return [("C02: constructor %s a tuple that must be %s" % (got, "accepted" if want else "rejected"),
             "StreamTokenizer(%s) is %s" % (v, got))]


def run(rep):
    tok.VALIDATE[0] = replay_fn
    b = BOUNDS[rep.tier]
    L = loader.load()
    core = L.core
    rep.hashes = L.hashes
    rep.bounds = {"constructor": "all of Z^6 (min_length, max_length, mcs, init_min, init_max_silence, mode unbounded integers)",
                  "inductive_step": "any stream length, init_min<=1, all 4 modes",
                  "bounded_runs": "streams of <= %d frames without / <= %d with a symbolic initial phase; parameters unbounded" % (b["N"], b["N_init"])}
    rep.explanation = ("Constructor: real __init__ on six unbounded symbolic integers; z3 proves returns <=> the documented "
                       "acceptance condition. Length bounds: I (Inv03 one-step) + B (whole runs incl. symbolic init_min/init_max_silence).")
    rep.assumptions = ["validator is a pure function of the frame", "source.read() does not raise"]
    rep.outside = ["streams longer than the B bound when init_min > 1 (no invariant for the initial phase)"]
    ex = explore(ctor_harness(core), workers=1)
    rep.add_exploration("constructor", ex, bounds={"arguments": "6 unbounded integers"})
    tok.handle_cex(rep, "constructor", ex, replay_ctor)
    ex2 = explore(ctor_harness(core, concrete_mode=True), workers=4)
    rep.add_exploration("constructor[mode in -9..17 concrete]", ex2, bounds={"arguments": "5 unbounded integers, mode enumerated"})
    tok.handle_cex(rep, "constructor[mode concrete]", ex2, replay_ctor)
    outs = {r.get("outcome") for r in ex.results}
    rep.witness("constructor: some path accepts", "accepted" in outs)
    rep.witness("constructor: some path rejects", "rejected" in outs)
    closed = tok.run_istep(rep, core, ("c02",))
    rep.witness("inductive step closes", closed)
    tok.run_bmc(rep, core, "bmc", b["N"], tok.MODES, (False,), oblig, replay_fn)
    tok.run_bmc(rep, core, "bmc", b["N_init"], tok.MODES, (True,), oblig, replay_fn)
    if not closed:
        rep.notes.append("invariant not inductive on this tree; claim reduced to the bounded runs")
