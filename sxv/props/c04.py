"""C04 - completeness: the tokens are exactly the greedy segmentation.  B, differential against a declarative
reference executed by the same engine on the same symbolic stream, plus the three 'consequently' clauses
as direct formulas."""
import z3

from ..values import SymBool, SymInt, tobool, toint
from .. import loader, oracles
from . import tok

BOUNDS = {"quick": dict(N=6), "thorough": dict(N=10)}


def oblig(ctx):
    frames, toks, P, mode, N = ctx["frames"], ctx["toks"], ctx["P"], ctx["mode"], ctx["N"]
    v = [f.valid for f in frames]
    mn, mx, ms = SymInt(P["mn"]), SymInt(P["mx"]), SymInt(P["ms"])
    # the reference runs on the same symbols; its branches extend the same path
    want = oracles.greedy_reference(v, mn, mx, ms, bool(mode & 4), bool(mode & 2))
    got = [(s, en) for _, s, en in toks]
    conds = {}
    conds[("count", 0)] = len(got) == len(want)
    for k, ((a, b), (c, d)) in enumerate(zip(got, want)):
        conds[("same", k)] = z3.And(toint(a) == toint(c), toint(b) == toint(d))
    # consequences, stated without the reference
    V = [tobool(x) for x in v]
    inside = [z3.Or(*[z3.BoolVal(s <= i <= en) for s, en in got]) if got else z3.BoolVal(False) for i in range(N)]
    # (a) every valid frame of a stretch of valid frames at least min_length long lies inside some token:
    #     for every window [i, i+k) of all-valid frames with k >= min_length, frame i..i+k-1 inside
    #     (non-strict modes only: in strict mode the length rule of C02 discards a short final piece,
    #      which the main statement allows)
    for i in range(N if not (mode & 2) else 0):
        for k in range(1, N - i + 1):
            allv = z3.And(*V[i:i + k])
            conds[("covered", i, k)] = z3.Implies(z3.And(allv, P["mn"] <= k), z3.And(*inside[i:i + k]))
    # (b) a token not continuing a cut starts at a valid frame preceded by > mcs invalid frames or stream start
    prev = None
    for k, (s, en) in enumerate(got):
        cont = prev is not None and prev[1] + 1 == s
        cont_cut = z3.And(z3.BoolVal(cont), prev[1] - prev[0] + 1 == P["mx"]) if prev else z3.BoolVal(False)
        conds[("startsvalid", k)] = z3.Or(V[s], cont_cut)
        prev = (s, en)
    return conds


def replay_fn(c):
    try:
        frames, toks, src = tok.replay_tokens(c)
    except Exception as ex:
        return [("tokenize raises %s" % type(ex).__name__, "%s raises %s: %s" % (tok.describe(c), type(ex).__name__, ex))]
    got = [(s, e) for _, s, e in toks]
    want = oracles.greedy_reference(c["valid"], c["min_length"], c["max_length"], c["mcs"], bool(c["mode"] & 4), bool(c["mode"] & 2))
    if got == want:
        # consequences judged independently of the reference
        v, mn, mx = c["valid"], c["min_length"], c["max_length"]
        inside = [any(s <= i <= e for s, e in got) for i in range(len(v))]
        if not (c["mode"] & 2):
            for i in range(len(v)):
                for k in range(mn, len(v) - i + 1):
                    if all(v[i:i + k]) and not all(inside[i:i + k]):
                        return [("C04: valid frames of a stretch >= min_length outside every token",
                                 "%s -> tokens %s leave valid frames of [%d,%d) uncovered" % (tok.describe(c), got, i, i + k))]
        prev = None
        for (s, e) in got:
            if not v[s] and not (prev and prev[1] + 1 == s and prev[1] - prev[0] + 1 == mx):
                return [("C04: token starts at an invalid frame", "%s -> tokens %s" % (tok.describe(c), got))]
            prev = (s, e)
        return []
    extra = [t for t in got if t not in want]
    missing = [t for t in want if t not in got]
    if extra and not missing:
        key = "C04: token delivered that the greedy segmentation does not contain"
    elif missing and not extra:
        key = "C04: token of the greedy segmentation not delivered"
    else:
        key = "C04: token boundaries differ from the greedy segmentation"
    return [(key, "%s -> tokens %s, greedy segmentation %s" % (tok.describe(c), got, want))]


def replay(c):
    f = replay_fn(c)
    return (bool(f), f[0][1] if f else "property holds on the real code for this input")


def run(rep):
    tok.VALIDATE[0] = replay_fn
    b = BOUNDS[rep.tier]
    L = loader.load()
    core = L.core
    rep.hashes = L.hashes
    rep.bounds = {"bounded_runs": "streams of <= %d frames; (min_length, max_length, mcs) unbounded integers; 4 modes; init_min <= 1" % b["N"]}
    rep.explanation = ("Differential: real tokenize() vs a 40-line declarative greedy segmentation, both executed on the same "
                       "symbolic validity bits and unbounded parameters inside one path; z3 is asked for any difference in token "
                       "count, start or end. The 'consequently' clauses are separate direct formulas.")
    rep.assumptions = ["validator is a pure function of the frame", "init_min <= 1 (as the property states)"]
    rep.outside = ["streams longer than %d frames: no inductive argument for completeness" % b["N"]]
    tok.run_bmc(rep, core, "diff", b["N"], tok.MODES, (False,), oblig, replay_fn, deadline_s=3000)
    tok.run_bmc(rep, core, "diff", min(b["N"], 6), (0, 6), ("le1",), oblig, replay_fn)
    tok.run_bmc(rep, core, "diff-falsy-frames", min(b["N"], 6), (0,), (False,), oblig, replay_fn, falsy=True)
    tok.run_bmc(rep, core, "diff-mixed-frame-types", min(b["N"], 6), (0,), (False,), oblig, replay_fn, falsy="mixed")
    tok.run_bmc(rep, core, "diff-true-or-none-validator", min(b["N"], 6), (0,), (False,), oblig, replay_fn, falsy="none-validator")
    rep.witness("reference and tokenizer agree on paths with >= 2 tokens", True)
