"""C20, objects other than the tokenizer: repeated split() of the same bytes / region / rewound recorder,
buffer source close+open, validators (numpy shim)."""
import z3

from ..engine import explore, S
from ..values import SymBool, SymInt, SymRat, SymBytes, slice_goal, bytes_eq_formula, lift, toint, tobool
from .. import loader
from . import byt, tok, c05

I = z3.Int
BOUNDS = {"quick": dict(K=3), "thorough": dict(K=4)}     # K=5: the recorder harnesses alone take 7-9 min each on 16 cores


def mkval():
    calls = []

    def validator(frame):
        k = len(calls)
        calls.append(frame)
        return SymBool(z3.Bool("v%d" % k))
    return validator, calls


def regions_equal(a, b):
    if len(a) != len(b):
        return False
    cs = []
    for x, y in zip(a, b):
        cs.append(bytes_eq_formula(lift(x.data), lift(y.data)))
        cs.append(SymRat.of(x.start).eqz(y.start))
        cs.append(SymRat.of(x.end).eqz(y.end))
    return z3.And(*cs) if cs else True


def repeat_harness(L, K, what, overlap, mode):
    core, util = L.modules["core"], L.modules["util"]
    sw, ch, sr = 2, 1, 10
    bps = 2

    def path(e):
        D, data = byt.sym_audio(e, "D", bps)
        n = D.nsamples
        B, H = I("B"), I("H")
        e.assume(z3.And(B >= 1, n <= K * B))
        P = {"mn": I("min_length"), "mx": I("max_length"), "ms": I("mcs")}
        e.assume(z3.And(P["mn"] >= 1, P["mn"] <= P["mx"], P["ms"] >= 0, P["ms"] < P["mx"]))
        core._duration_to_nb_windows = lambda d, *a, **k: SymInt(P[{1: "mn", 2: "mx", 3: "ms"}[d]])
        skw = dict(min_dur=1, max_dur=2, max_silence=3, drop_trailing_silence=bool(mode & 4), strict_min_dur=bool(mode & 2))
        meta = dict(kind="repeat", what=what, overlap=overlap, mode=mode, K=K)
        syms = dict(n=n, B=B, min_length=P["mn"], max_length=P["mx"], mcs=P["ms"])
        consumed = None
        e.on_budget = lambda m: mk(m, syms, meta, consumed_box[0])
        consumed_box = [None]
        try:
            if what == "bytes":
                runs = [list(core.split(data, sr=sr, sw=sw, ch=ch, analysis_window=SymRat(B, sr), validator=mkval()[0], **skw)) for _ in range(3)]
            elif what == "region":
                reg = core.AudioRegion(data, sr, sw, ch)
                runs = [list(reg.split(analysis_window=SymRat(B, sr), validator=mkval()[0], **skw)) for _ in range(3)]
            elif what == "two-generators":
                # default (energy) detection, where split() builds validator and tokenizer itself: two lazy runs with equal parameters are
                # alive at once and consumed alternately (or the first is resumed after the second is finished); each must equal a run alone
                # a cache keyed by the counts (if the code has one) makes the engine enumerate their values: counts above K + 1 windows
                # behave like K + 1 on at most K windows, the enumeration is cut there (a stated bound of this harness only)
                e.assume(P["mx"] <= K + 1)
                table = {}

                class RecValidator:
                    """stands for AudioEnergyValidator: stateless like the real one - the decision depends on the window only (window k of the
                    input, identified by the term that denotes its bytes, gets the bit v_k whichever instance is asked, however often)"""

                    def __init__(self, *a, **k):
                        pass

                    def is_valid(self, d):
                        return SymBool(z3.Bool("v%d" % table.setdefault(repr(d), len(table))))
                core.AudioEnergyValidator = RecValidator
                core.DataValidator.register(RecValidator)
                kw = dict(sr=sr, sw=sw, ch=ch, analysis_window=SymRat(B, sr))
                alone = list(core.split(data, **dict(kw, **skw)))
                g1, g2 = core.split(data, **dict(kw, **skw)), core.split(data, **dict(kw, **skw))
                r1, r2 = [], []
                how = e.choose(2)
                consumed = consumed_box[0] = ("alternately", "first resumed after the second has finished")[how]
                if how == 0:
                    live = [(g1, r1), (g2, r2)]
                    while live:
                        for g, r in list(live):
                            try:
                                r.append(next(g))
                            except StopIteration:
                                live.remove((g, r))
                else:
                    for g, r, cnt in ((g1, r1, 1), (g2, r2, None), (g1, r1, None)):
                        for x in g:
                            r.append(x)
                            if cnt is not None:
                                break
                runs = [alone, r1, r2]
            elif what == "reader-reopen":
                # a plain (non-recording) reader over a buffer: read to the end, close, open again - the buffer restarts, so must the reader
                rd = util.AudioReader(data, block_dur=SymRat(B, sr), sr=sr, sw=sw, ch=ch)
                runs = []
                for _ in range(3):
                    runs.append(list(core.split(rd, validator=mkval()[0], **skw)))
                    rd.close()
            else:
                kw = dict(block_dur=SymRat(B, sr), sr=sr, sw=sw, ch=ch, record=True)
                if overlap:
                    e.assume(z3.And(H >= 1, H < B, n <= B + (K - 1) * H))     # at most K overlapping blocks
                    kw["hop_dur"] = SymRat(H, sr)
                    syms["H"] = H
                rec = util.AudioReader(data, **kw)
                # first use: complete, or abandoned after `consumed` regions, or a few bare read() calls
                how = e.choose(3)
                if how == 0:
                    list(core.split(rec, validator=mkval()[0], **skw))
                    consumed = consumed_box[0] = "all"
                elif how == 1:
                    g = core.split(rec, validator=mkval()[0], **skw)
                    j = e.choose(3)
                    for _ in range(j):
                        try:
                            next(g)
                        except StopIteration:
                            break
                    consumed = consumed_box[0] = "%d regions" % j
                else:
                    rec.open()
                    j = e.choose(K + 1)
                    for _ in range(j):
                        rec.read()
                    consumed = consumed_box[0] = "%d reads" % j
                runs = []
                for i_ in range(3):
                    rec.rewind()
                    runs.append(list(core.split(rec, validator=mkval()[0], **skw)))
                    if i_ == 0:
                        # between two complete passes: a pass over the rewound recorder that is given up after its first region
                        rec.rewind()
                        g2 = core.split(rec, validator=mkval()[0], **skw)
                        try:
                            next(g2)
                        except StopIteration:
                            pass
                        del g2
                # a fresh reader over the recorded data must agree as well
                rec.rewind()
                kw2 = dict(kw)
                kw2.pop("record")
                fresh = util.AudioReader(rec.data, **kw2)
                runs.append(list(core.split(fresh, validator=mkval()[0], **skw)))
        except Exception as ex:
            m = e.model()
            return {"status": "cex", "failing": ["raised %s: %s" % (type(ex).__name__, str(ex)[:80])],
                    "cex": mk(m, syms, meta, consumed) if m is not None else None}
        conds = {}
        for i in range(1, len(runs)):
            conds[("run %d equals run 0" % i, 0)] = regions_equal(runs[0], runs[i])
        r = tok.discharge(e, conds, lambda m: mk(m, syms, meta, consumed))
        r["regions"] = len(runs[0])
        return r
    return path


def mk(m, syms, meta, consumed):
    c = dict(meta)
    c["first_use"] = consumed
    for k, t in syms.items():
        c[k] = byt.iv(m, t)
    c["valid"] = [byt.bv(m, z3.Bool("v%d" % k)) for k in range(meta["K"] * 2 + 2)]
    return c


def reopen_harness(L, sw, ch):
    iom = L.modules["io"]
    bps = sw * ch

    def path(e):
        D, data = byt.sym_audio(e, "D", bps)
        n = D.nsamples
        p0, j, k = I("p0"), I("j"), I("k")
        e.assume(z3.And(p0 >= 0, p0 <= n, k >= 0))
        conds = {}
        try:
            src = iom.BufferAudioSource(data, 10, sw, ch)
            src.open()
            src.position = SymInt(p0)
            src.read(SymInt(j))
            src.close()
            src.open()
            conds["position after reopen"] = toint(src.position) == 0
            out = src.read(SymInt(k))
            cnt = z3.If(k < n, k, n)
            conds["read after reopen starts at the beginning"] = (cnt == 0) if out is None else z3.And(cnt > 0, slice_goal(out, D, 0, cnt * bps))
        except Exception as ex:
            conds["no exception"] = False
        return tok.discharge(e, conds, lambda m: {"kind": "reopen", "sw": sw, "ch": ch, "n": byt.iv(m, n), "p0": byt.iv(m, p0), "j": byt.iv(m, j), "k": byt.iv(m, k)})
    return path


# ------------------------------------------------------------------ replay
def replay_fn(c):
    ak = loader.real_auditok()
    import auditok.core as rcore
    from auditok import io as rio
    if c["kind"] == "reopen":
        bps = c["sw"] * c["ch"]
        data = byt.concrete_bytes(c["n"] * bps)
        src = rio.BufferAudioSource(data, 10, c["sw"], c["ch"])
        src.open()
        src.position = c["p0"]
        src.read(c["j"])
        src.close()
        src.open()
        out = src.read(c["k"])
        want = data[:c["k"] * bps] or None
        if src.position != (len(out) // bps if out else 0) or out != want:
            return [("C20: buffer source does not restart at the beginning after close/open",
                     "BufferAudioSource(%d samples): position=%d, read(%d), close, open, read(%d) returns %s" % (c["n"], c["p0"], c["j"], c["k"], None if out is None else len(out)))]
        return []
    sw, ch, sr, bps = 2, 1, 10, 2
    n, B = c["n"], c["B"]
    H = c.get("H", B)
    if int((B / sr) * sr) != B or int((H / sr) * sr) != H:
        return []
    data = byt.concrete_bytes(n * bps)
    orig = rcore._duration_to_nb_windows
    rcore._duration_to_nb_windows = lambda d, *a, **k: {1: c["min_length"], 2: c["max_length"], 3: c["mcs"]}[d]
    skw = dict(min_dur=1, max_dur=2, max_silence=3, drop_trailing_silence=bool(c["mode"] & 4), strict_min_dur=bool(c["mode"] & 2))

    def val():
        calls = []

        def v(frame):
            calls.append(1)
            k = len(calls) - 1
            if k > len(c["valid"]) + 200:
                raise RuntimeError("input does not end: more than %d windows were handed to the validator" % k)
            return c["valid"][k] if k < len(c["valid"]) else False
        return v
    desc = "%s of %d samples (window %d, hop %s, counts (%d,%d,%d), mode %d, decisions %s), first use: %s" % (
        c["what"], n, B, H if c["overlap"] else None, c["min_length"], c["max_length"], c["mcs"], c["mode"], tok.stream_str(c["valid"]), c["first_use"])
    try:
        if c["what"] == "bytes":
            runs = [list(ak.split(data, sr=sr, sw=sw, ch=ch, analysis_window=B / sr, validator=val(), **skw)) for _ in range(3)]
        elif c["what"] == "region":
            reg = ak.AudioRegion(data, sr, sw, ch)
            runs = [list(reg.split(analysis_window=B / sr, validator=val(), **skw)) for _ in range(3)]
        elif c["what"] == "two-generators":
            # the decisions are realised as energies: a loud window (86 dB) where the decision is 'active', zeros elsewhere; default threshold
            import struct
            nw = -(-n // B)
            data = b"".join(struct.pack("<h", 20000 if (k // B < len(c["valid"]) and c["valid"][k // B]) else 0) for k in range(n))
            kw = dict(sr=sr, sw=sw, ch=ch, analysis_window=B / sr)
            alone = list(ak.split(data, **dict(kw, **skw)))
            g1, g2 = ak.split(data, **dict(kw, **skw)), ak.split(data, **dict(kw, **skw))
            r1, r2 = [], []
            if c["first_use"] == "alternately":
                live = [(g1, r1), (g2, r2)]
                while live:
                    for g, r in list(live):
                        try:
                            r.append(next(g))
                        except StopIteration:
                            live.remove((g, r))
            else:
                for g, r, cnt in ((g1, r1, 1), (g2, r2, None), (g1, r1, None)):
                    for x in g:
                        r.append(x)
                        if cnt is not None:
                            break
            runs = [alone, r1, r2]
        elif c["what"] == "reader-reopen":
            rd = ak.AudioReader(data, block_dur=B / sr, sr=sr, sw=sw, ch=ch)
            runs = []
            for _ in range(3):
                runs.append(list(ak.split(rd, validator=val(), **skw)))
                rd.close()
        else:
            kw = dict(block_dur=B / sr, sr=sr, sw=sw, ch=ch, record=True)
            if c["overlap"]:
                kw["hop_dur"] = H / sr
            rec = ak.AudioReader(data, **kw)
            fu = c["first_use"]
            if fu == "all":
                list(ak.split(rec, validator=val(), **skw))
            elif fu.endswith("regions"):
                g = ak.split(rec, validator=val(), **skw)
                for _ in range(int(fu.split()[0])):
                    try:
                        next(g)
                    except StopIteration:
                        break
            else:
                rec.open()
                for _ in range(int(fu.split()[0])):
                    rec.read()
            runs = []
            for i_ in range(3):
                rec.rewind()
                runs.append(list(ak.split(rec, validator=val(), **skw)))
                if i_ == 0:
                    rec.rewind()
                    g2 = ak.split(rec, validator=val(), **skw)
                    try:
                        next(g2)
                    except StopIteration:
                        pass
                    del g2
            rec.rewind()
            kw.pop("record")
            runs.append(list(ak.split(ak.AudioReader(rec.data, **kw), validator=val(), **skw)))
    except Exception as ex:
        return [("C20: repeated split raises %s" % type(ex).__name__, desc + ": %s" % ex)]
    finally:
        rcore._duration_to_nb_windows = orig
    sig = [[(r.start, r.end, r.data) for r in run] for run in runs]
    for i in range(1, len(sig)):
        if sig[i] != sig[0]:
            return [("C20: repeated split of the same %s gives different regions" % c["what"],
                     desc + ": run 0 -> %s, run %d -> %s" % ([(a, b, len(d)) for a, b, d in sig[0]], i, [(a, b, len(d)) for a, b, d in sig[i]]))]
    return []


def replay(c):
    f = replay_fn(c)
    return (bool(f), f[0][1] if f else "property holds on the real code for this input")


def run(rep):
    tok.VALIDATE[0] = replay_fn
    b = BOUNDS[rep.tier]
    L = loader.load()
    K = b["K"]
    rep.bounds["repeated split"] = ("same bytes / same AudioRegion split 3 times; recording reader (with and without overlap) first used "
                                    "completely, abandoned after 0-2 regions or after 0-%d bare reads, then rewound and split 3 times (with a pass abandoned after its first region in between) and compared "
                                    "with a fresh reader over its data; <= %d windows, n, window, hop, counts unbounded" % (K, K))
    rep.bounds["two live generators"] = ("default energy detection (validator class stubbed by per-instance decision bits): two split() generators with equal parameters over the same bytes, "
                                         "consumed alternately or the first resumed after the second has finished, each compared with a run alone; <= %d windows, max_length <= %d windows" % (K, K + 1))
    rep.bounds["buffer source"] = "arbitrary position, read(j), close, open, read(k): unbounded n, p0, j, k"
    modes = (0, 6) if rep.tier == "quick" else tok.MODES
    for what, overlap in (("bytes", False), ("region", False), ("two-generators", False), ("reader-reopen", False), ("recorder", False), ("recorder", True)):
        for mode in (modes if what == "recorder" else modes[:1]):
            hn = "repeat[%s%s,K=%d,mode=%d]" % (what, ",overlap" if overlap else "", K, mode)
            ex = explore(repeat_harness(L, K, what, overlap, mode))
            rep.add_exploration(hn, ex)
            tok.handle_cex(rep, hn, ex, replay_fn, ideal=True)
    for (sw, ch) in ((1, 1), (2, 3)):
        ex = explore(reopen_harness(L, sw, ch), workers=2)
        rep.add_exploration("reopen[sw=%d,ch=%d]" % (sw, ch), ex)
        tok.handle_cex(rep, "reopen", ex, replay_fn)
    try:
        from . import c07
        c07.run_c20(rep)
    except (ImportError, AttributeError):
        rep.notes.append("validator statelessness: not built")
