"""C07 - a window is active exactly when its log energy reaches the threshold.
The real AudioEnergyValidator / make_channel_selector / signal.to_array / calculate_energy are executed with the module
global `np` bound to the shim; every byte of the window and the threshold are symbolic.  The code has no data-dependent
branch, so each configuration is one path and one query (plus a monotonicity query)."""
import fractions
import itertools
import math

import z3

from ..engine import explore, Unsupported
from ..values import SymBool, tobool
from ..stubs import npshim
from ..stubs.npshim import Window, TypedWindow, SQ, SQRT, LOG10
from .. import loader
from . import byt, tok

QUICK = dict(widths=(1, 2, 4), channels=(1, 2, 3), samples=(1, 2))
THOROUGH = dict(widths=(1, 2, 4), channels=(1, 2, 3, 4), samples=(1, 2, 3))
NAMES = [None, "any", "mix", "avg", "average"]
BAD_NAMES = ["left", "", "MIX"]


def selectors(ch):
    return NAMES + list(range(-ch - 1, ch + 2)) + BAD_NAMES


def sample_term(data, sw, ch, i, c):
    k = (i * ch + c) * sw
    bs = data[k:k + sw]
    bv = z3.Concat(*reversed(bs)) if sw > 1 else bs[0]
    return z3.ToReal(z3.BV2Int(bv, is_signed=True))


def oracle(data, sw, ch, n, uc, thr):
    """decision per the statement; returns (z3 Bool, list of sq-argument terms, list of log-argument terms) or 'ValueError'"""
    sq_args, log_args = [], []
    floor = z3.RealVal("1/100000000000000000000")

    def E(xs):
        sq_args.extend(xs)
        m = z3.Sum([SQ(x) for x in xs]) / len(xs)
        a = z3.If(m < floor, floor, m)
        log_args.append(a)
        return 10 * LOG10(a)
    if ch == 1 or uc in (None, "any"):
        if ch > 1 and uc not in (None, "any"):
            pass
        es = [E([sample_term(data, sw, ch, i, c) for i in range(n)]) for c in range(ch)]
        return z3.Or(*[x >= thr for x in es]), sq_args, log_args
    if isinstance(uc, int) and not isinstance(uc, bool):
        c = uc + ch if uc < 0 else uc
        if not 0 <= c < ch:
            return "ValueError", [], []
        return E([sample_term(data, sw, ch, i, c) for i in range(n)]) >= thr, sq_args, log_args
    if uc in ("mix", "avg", "average"):
        return E([z3.Sum([sample_term(data, sw, ch, i, c) for c in range(ch)]) / ch for i in range(n)]) >= thr, sq_args, log_args
    return "ValueError", [], []


def harness(L, sw, ch, n, uc, typed=False, sparse=False):
    """sparse: a long window whose first, middle and last samples are symbolic and all others digital silence"""
    util = L.modules["util"]

    def path(e):
        shim = npshim.Shim()
        npshim.install(L, shim)
        raw = [z3.BitVec("b%d" % i, 8) for i in range(sw * ch * n)]
        if sparse:
            keep = {0, n // 2, n - 1}
            zero = z3.BitVecVal(0, 8)
            raw = [b if (i // (sw * ch)) in keep else zero for i, b in enumerate(raw)]
        data = TypedWindow(raw, sw) if typed else Window(raw)
        thr, thr2 = z3.Real("thr"), z3.Real("thr2")
        meta = dict(kind="energy", sw=sw, ch=ch, n=n, uc=uc, typed=typed, sparse=sparse)
        want, sq_args, log_args = oracle(raw, sw, ch, n, uc, thr)
        # a shorter window (the partial last block of a stream) judged by the same, already used validator
        short_raw = raw[:sw * ch * (n - 1)] if n >= 2 else None
        want_short = None
        if short_raw:
            want_short, sq2, log2 = oracle(short_raw, sw, ch, n - 1, uc, thr)
            sq_args, log_args = sq_args + sq2, log_args + log2
        try:
            v = util.AudioEnergyValidator(_T(thr), sw, ch, use_channel=uc)
            dec = v.is_valid(data)
            v2 = util.AudioEnergyValidator(_T(thr2), sw, ch, use_channel=uc)
            dec2 = v2.is_valid(data)
            # statelessness (C20): a used validator judges the same window the same way, and a shorter one like a fresh validator
            dec_again = v.is_valid(data)
            dec_short = None
            if short_raw and not isinstance(want_short, str):
                dec_short = v.is_valid(TypedWindow(short_raw, sw) if typed else Window(short_raw))
        except ValueError:
            if isinstance(want, str):
                return {"status": "ok", "outcome": "ValueError"}
            return now(e, "raised ValueError for a valid selector", meta)
        except Unsupported:
            raise
        except Exception as ex:
            return now(e, "raised %s: %s" % (type(ex).__name__, str(ex)[:80]), meta)
        if isinstance(want, str):
            return now(e, "invalid selector %r accepted" % (uc,), meta)
        dec, dec2, dec_again = tobool(dec), tobool(dec2), tobool(dec_again)
        for a in shim.axioms(extra_sq=sq_args, extra_log=log_args):
            e.add(a)
        conds = {"decision == (log energy >= threshold)": dec == want,
                 "raising the threshold never activates a window": z3.Implies(z3.And(thr2 >= thr, dec2), dec),
                 "same verdict when asked again": dec_again == dec}
        if dec_short is not None:
            conds["a shorter window after a longer one is judged on its own samples"] = tobool(dec_short) == want_short
        return tok.discharge(e, conds, lambda m: mk(m, raw, meta))
    return path


class _T:
    """threshold proxy: compared by the code as `log_energy >= threshold`"""
    __sx_proxy__ = True

    def __init__(self, t):
        self.t = t


def _arr_ge(self, o):
    if isinstance(o, _T):
        if len(self.flat) != 1:
            raise ValueError("The truth value of an array with more than one element is ambiguous")
        return SymBool(self.flat[0] >= o.t)
    return npshim.Arr._cmp(self, o, lambda a, b: a >= b)


def _arr_gt(self, o):
    if isinstance(o, _T):
        return SymBool(self.flat[0] > o.t)
    return npshim.Arr._cmp(self, o, lambda a, b: a > b)


npshim.Arr.__ge__ = _arr_ge
npshim.Arr.__gt__ = _arr_gt
_T.__le__ = lambda self, arr: _arr_ge(arr, self)
_T.__lt__ = lambda self, arr: _arr_gt(arr, self)


def numpy_harness(L, sw, ch, n):
    """C18: AudioRegion.numpy() has shape (channels, samples) and element [c][i] = signed LE value of channel c, sample i"""
    core = L.modules["core"]

    def path(e):
        shim = npshim.Shim()
        npshim.install(L, shim)
        data = Window([z3.BitVec("b%d" % i, 8) for i in range(sw * ch * n)])
        meta = dict(kind="numpy", sw=sw, ch=ch, n=n)
        try:
            reg = core.AudioRegion(data, 10, sw, ch)
            first = reg.numpy()
            # the caller scribbles over the array it was given (in-place normalisation, say); a later export must not see it
            first.flat[:] = [z3.RealVal(0)] * len(first.flat)
            arr = reg.numpy()
        except Exception as ex:
            return now(e, "raised %s: %s" % (type(ex).__name__, str(ex)[:80]), meta)
        conds = {"shape": arr.shape == (ch, n)}
        if arr.shape == (ch, n):
            for c in range(ch):
                for i in range(n):
                    conds[("element", c, i)] = arr.flat[c * n + i] == sample_term(data, sw, ch, i, c)
        return tok.discharge(e, conds, lambda m: mk(m, data, meta))
    return path


def array_reuse_harness(L, sw, ch, n):
    """C20: a window handed over as an array (what to_array / AudioRegion.numpy() produce) is judged twice: the energy is the
    same and the caller's array is left as it was"""
    sig = L.modules["signal"]

    def path(e):
        shim = npshim.Shim()
        npshim.install(L, shim)
        raw = [z3.BitVec("b%d" % i, 8) for i in range(sw * ch * n)]
        meta = dict(kind="array-reuse", sw=sw, ch=ch, n=n, uc=None)
        try:
            x = sig.to_array(Window(raw), sw, ch)
            before = list(x.flat)
            e1 = sig.calculate_energy(x)
            after = list(x.flat)
            e2 = sig.calculate_energy(x)
        except Unsupported:
            raise
        except Exception as ex:
            return now(e, "raised %s: %s" % (type(ex).__name__, str(ex)[:80]), meta)
        for a in shim.axioms():
            e.add(a)
        conds = {"the caller's array is left as it was": z3.And(len(before) == len(after), *[a == b for a, b in zip(before, after)]),
                 "same energy when the same array is judged again": z3.And(len(e1.flat) == len(e2.flat), *[a == b for a, b in zip(e1.flat, e2.flat)])}
        return tok.discharge(e, conds, lambda m: mk(m, raw, meta))
    return path


def replay_array_reuse(c):
    import numpy as np
    from auditok import signal as rsig
    sw, ch, n = c["sw"], c["ch"], c["n"]
    raw = bytes(c["bytes"]) if c.get("bytes") is not None else bytes(range(1, sw * ch * n + 1))
    x = rsig.to_array(raw, sw, ch)
    keep = x.copy()
    e1 = np.array(rsig.calculate_energy(x), dtype=float)
    same = bool(np.array_equal(x, keep))
    e2 = np.array(rsig.calculate_energy(x), dtype=float)
    desc = "window %s as a float64 array of shape %s" % (list(raw), x.shape)
    if not same:
        return [("C20: judging a window changes the caller's array", desc + ": after calculate_energy() it reads %s" % x.tolist())]
    if not np.array_equal(e1, e2):
        return [("C20: the same window gets a different energy the second time", desc + ": %s then %s" % (e1.tolist(), e2.tolist()))]
    return []


def now(e, why, meta):
    return {"status": "cex", "failing": [why], "cex": dict(meta, bytes=None, thr=None)}


def mk(m, data, meta):
    c = dict(meta)
    c["bytes"] = [m.eval(b, model_completion=True).as_long() for b in data]
    if len(c["bytes"]) > 64:
        c["bytes_sparse"] = {str(i): v for i, v in enumerate(c["bytes"]) if v}
        c["nbytes"] = len(c["bytes"])
        c["bytes"] = None
    t = m.eval(z3.Real("thr"), model_completion=True)
    try:
        c["thr"] = float(t.as_fraction())
    except Exception:
        c["thr"] = None
    return c


# ------------------------------------------------------------------ replay
def concrete_energy(ys):
    m = sum(float(y) * float(y) for y in ys) / len(ys)
    return 10 * math.log10(max(m, 1e-20))


def concrete_oracle_energy(raw, sw, ch, n, uc):
    import struct
    fmt = {1: "b", 2: "h", 4: "i"}[sw]
    vals = struct.unpack("<%d%s" % (ch * n, fmt), raw)
    x = [[vals[i * ch + c] for i in range(n)] for c in range(ch)]
    if ch == 1 or uc in (None, "any"):
        return max(concrete_energy(x[c]) for c in range(ch))
    if isinstance(uc, int):
        c = uc + ch if uc < 0 else uc
        if not 0 <= c < ch:
            raise ValueError
        return concrete_energy(x[c])
    if uc in ("mix", "avg", "average"):
        return concrete_energy([sum(x[c][i] for c in range(ch)) / ch for i in range(n)])
    raise ValueError


def replay_fn(c, light=False):
    ak = loader.real_auditok()
    import numpy as np
    from auditok import signal as rsig
    sw, ch, n = c["sw"], c["ch"], c["n"]
    if c["kind"] == "numpy":
        return replay_numpy(c)
    if c["kind"] == "array-reuse":
        return replay_array_reuse(c)
    uc = c["uc"]
    try:
        want_err = False
        try:
            concrete_oracle_energy(bytes(sw * ch * n), sw, ch, n, uc)
        except ValueError:
            want_err = True
        try:
            v = ak.AudioEnergyValidator(0, sw, ch, use_channel=uc)
            got_err = False
        except ValueError:
            got_err = True
        if want_err != got_err:
            return [("C07: channel selector %r %s" % (uc, "accepted" if want_err else "rejected"),
                     "AudioEnergyValidator(sw=%d, ch=%d, use_channel=%r) %s" % (sw, ch, uc, "does not raise ValueError" if want_err else "raises ValueError"))]
        if want_err:
            return []
        cands = []
        if c.get("bytes") is not None:
            cands.append(bytes(c["bytes"]))
        if c.get("bytes_sparse") is not None:
            bb = bytearray(c["nbytes"])
            for i, v in c["bytes_sparse"].items():
                bb[int(i)] = v
            cands.append(bytes(bb))
        import random
        rnd = random.Random(1)
        ext = {1: [0, 1, 127, 128, 255], 2: [0, 1, 255, 127, 128], 4: [0, 1, 255, 127, 128]}[sw]
        for _ in range(6 if light else 60):
            cands.append(bytes(rnd.choice(ext) if rnd.random() < 0.5 else rnd.randrange(256) for _ in range(sw * ch * n)))
        cands.append(bytes(sw * ch * n))
        # the extremes of the sample range, alone and mixed with silence (|most negative| has no positive counterpart)
        import struct as _st
        fmt_ = {1: "b", 2: "h", 4: "i"}[sw]
        lo_, hi_ = -(1 << (8 * sw - 1)), (1 << (8 * sw - 1)) - 1
        for pat in ([lo_] * (ch * n), [hi_] * (ch * n), [lo_] + [0] * (ch * n - 1), [0] * (ch * n - 1) + [lo_], [lo_, hi_] * (ch * n), [lo_ + 1] * (ch * n)):
            cands.insert(1, _st.pack("<%d%s" % (ch * n, fmt_), *pat[:ch * n]))
        for raw in cands:
            e_or = concrete_oracle_energy(raw, sw, ch, n, uc)
            # the energy the code itself computes for this window (threshold-independent)
            sel = ak.util.make_channel_selector(sw, ch, uc) if hasattr(ak, "util") else None
            from auditok.util import make_channel_selector
            sel = make_channel_selector(sw, ch, uc)
            e_code = rsig.calculate_energy(sel(raw), np.max if uc in (None, "any") else None)
            e_code = float(np.max(e_code))
            desc = "window %s (sw=%d ch=%d, %d samples/channel, use_channel=%r)" % (list(raw), sw, ch, n, uc)
            if abs(e_code - e_or) > 1e-9:
                thr = (e_code + e_or) / 2
                dec = bool(np.all(ak.AudioEnergyValidator(thr, sw, ch, use_channel=uc).is_valid(raw)))
                if dec != (e_or >= thr):
                    return [("C07: decision differs from the log-energy rule", desc + ": code energy %.6f dB, statement %.6f dB, threshold %.6f -> %s" % (e_code, e_or, thr, dec))]
            # boundary: threshold exactly at the energy numpy computes
            dec = bool(np.all(ak.AudioEnergyValidator(e_code, sw, ch, use_channel=uc).is_valid(raw)))
            if not dec:
                return [("C07: window whose energy equals the threshold is judged inactive", desc + ": energy %.6f dB" % e_code)]
            dec_hi = bool(np.all(ak.AudioEnergyValidator(e_code + 1e-6, sw, ch, use_channel=uc).is_valid(raw)))
            if dec_hi:
                return [("C07: window below the threshold is judged active", desc + ": energy %.6f dB" % e_code)]
            # stateful scratch space: a long loud window first, then this one, must agree with a fresh validator
            used = ak.AudioEnergyValidator(e_code, sw, ch, use_channel=uc)
            loud = (b"\x7f" * sw) * (ch * (n + 3))
            used.is_valid(loud)
            if bool(np.all(used.is_valid(raw))) != dec:
                return [("C07: validator verdict depends on earlier windows", desc + ": judged differently after a longer loud window")]
            used_hi = ak.AudioEnergyValidator(e_code + 1e-6, sw, ch, use_channel=uc)
            used_hi.is_valid(loud)
            if bool(np.all(used_hi.is_valid(raw))):
                return [("C07: validator verdict depends on earlier windows", desc + ": a window below the threshold is judged active after a longer loud window")]
            quiet = bytes(sw * ch * (n + 3))
            used2 = ak.AudioEnergyValidator(e_code, sw, ch, use_channel=uc)
            used2.is_valid(quiet)
            if bool(np.all(used2.is_valid(raw))) != dec:
                return [("C07: validator verdict depends on earlier windows", desc + ": judged differently after a longer silent window")]
            if sw in (2, 4):
                import array
                arr = array.array("h" if sw == 2 else "i", raw)
                if arr.itemsize == sw and bool(np.all(ak.AudioEnergyValidator(e_code, sw, ch, use_channel=uc).is_valid(arr))) != dec:
                    return [("C07: a window given as a typed array is judged differently from the same bytes", desc)]
            v = ak.AudioEnergyValidator(e_code, sw, ch, use_channel=uc)
            if bool(np.all(v.is_valid(cands[-1]))) != (concrete_oracle_energy(cands[-1], sw, ch, n, uc) >= e_code) and abs(concrete_oracle_energy(cands[-1], sw, ch, n, uc) - e_code) > 1e-9:
                return [("C07: decision differs from the log-energy rule", desc)]
            if bool(np.all(v.is_valid(raw))) != dec:
                return [("C07: validator verdict depends on earlier windows", desc)]
        return []
    except Exception as ex:
        return [("C07: energy validator raises %s" % type(ex).__name__, "sw=%d ch=%d n=%d use_channel=%r: %s" % (sw, ch, n, uc, ex))]


def replay_numpy(c):
    import struct
    ak = loader.real_auditok()
    sw, ch, n = c["sw"], c["ch"], c["n"]
    raw = bytes(c["bytes"]) if c.get("bytes") else byt.concrete_bytes(sw * ch * n)
    fmt = {1: "b", 2: "h", 4: "i"}[sw]
    vals = struct.unpack("<%d%s" % (ch * n, fmt), raw)
    try:
        reg = ak.AudioRegion(raw, 10, sw, ch)
        first = reg.numpy()
        try:
            first[:] = 0
        except Exception:
            pass                    # a read-only export is fine too
        arr = reg.numpy()
    except Exception as ex:
        return [("C18: numpy() raises %s" % type(ex).__name__, str(ex))]
    want = [[vals[i * ch + c_] for i in range(n)] for c_ in range(ch)]
    if tuple(arr.shape) != (ch, n) or arr.tolist() != want:
        return [("C18: numpy export differs from the signed little-endian per-channel values",
                 "bytes %s sw=%d ch=%d: got shape %s %s, expected %s" % (list(raw), sw, ch, tuple(arr.shape), arr.tolist(), want))]
    return []


def replay(c):
    f = replay_fn(c)
    return (bool(f), f[0][1] if f else "property holds on the real code for this input")


def configs(tier):
    b = QUICK if tier == "quick" else THOROUGH
    for sw in b["widths"]:
        for ch in b["channels"]:
            for n in b["samples"]:
                for uc in selectors(ch):
                    yield sw, ch, n, uc


def run(rep):
    tok.VALIDATE[0] = lambda c: replay_fn(c, light=True)
    L = loader.load()
    rep.hashes = L.hashes
    tier = rep.tier
    b = QUICK if tier == "quick" else THOROUGH
    rep.level = "model_checking"
    rep.bounds = {"windows": "every byte symbolic; widths %s x channels %s x samples per channel %s" % (b["widths"], b["channels"], b["samples"]),
                  "threshold": "any real", "selectors": "None, 'any', 'mix', 'avg', 'average', every integer in [-ch-1, ch+1], unknown names"}
    rep.explanation = ("Real AudioEnergyValidator/make_channel_selector/to_array/calculate_energy executed through a numpy shim over symbolic bytes; "
                       "one z3 query (QF_UFLRA + BV2Int) per configuration proves decision == statement, plus monotonicity in the threshold.")
    rep.assumptions = ["sqrt, log10 and squaring are uninterpreted functions with the axioms listed in DESIGN §5 C07 instantiated on recorded terms",
                       "numpy's float64 rounding is outside the claim (energies within ~1e-12 dB of the threshold)"]
    rep.bounds["long windows"] = "5000 (9000) samples per channel with the first, middle and last sample symbolic and digital silence elsewhere"
    rep.outside = ["windows longer than %d samples per channel with every byte symbolic (the code is data-oblivious: no branch on sample values)" % max(b["samples"]),
                   "inexact squares of 32-bit samples above 2^53", "the optional signal_numpy module (absent in this tree)"]
    tot = {"ok": 0}
    npshim_ok = npshim.validate_against_numpy(L, trials=100 if tier == "quick" else 1000)
    rep.notes.append("numpy shim self-validation against real numpy: %d windows, %d mismatches" % npshim_ok)
    if npshim_ok[1]:
        rep.harness_errors.append("numpy shim disagrees with numpy on %d of %d windows" % (npshim_ok[1], npshim_ok[0]))
    from ..engine import Exploration
    agg = {}
    for sw, ch, n, uc in configs(tier):
        ex = explore(harness(L, sw, ch, n, uc), workers=1, timeout_ms=60000)
        for r in ex.results:
            if r["status"] == "unsupported":
                # the code left the modelled numpy fragment: fall back to a concrete probe of this configuration so that an
                # outright wrong decision is still reported (a replayed fact; it adds nothing to the solver claim)
                r["status"] = "cex"
                r["failing"] = ["unsupported by the shim: %s" % r.get("why")]
                r["cex"] = dict(kind="energy", sw=sw, ch=ch, n=n, uc=uc, bytes=None, thr=None)
                rep.notes.append("config (sw=%d, ch=%d, n=%d, use_channel=%r) left the numpy shim (%s); probed concretely" % (sw, ch, n, uc, r.get("why")))
        key = "energy[sw=%d,ch=%d]" % (sw, ch)
        a = agg.setdefault(key, Exploration())
        a.results += [dict(r, config=[sw, ch, n, repr(uc)]) for r in ex.results]
        a.stats.update(ex.stats)
        a.solver_s += ex.solver_s
        a.paths += ex.paths
        a.wall_s += ex.wall_s
        a.entered |= ex.entered
        a.exhausted = a.exhausted and ex.exhausted
    # long windows (an analysis window of half a second at 10 kHz): three symbolic samples, the rest digital silence
    a = agg.setdefault("energy[long windows]", Exploration())
    for sw, ch, n, uc in ((1, 1, 5000, None), (2, 2, 5000, "mix")) if tier == "quick" else ((1, 1, 5000, None), (2, 2, 5000, "mix"), (2, 2, 5000, None), (4, 1, 9000, None), (2, 3, 5000, -1)):
        ex = explore(harness(L, sw, ch, n, uc, sparse=True), workers=1, timeout_ms=120000, path_wall_s=300)
        for r in ex.results:
            if r["status"] == "unsupported":
                r["status"] = "cex"
                r["failing"] = ["unsupported by the shim: %s" % r.get("why")]
                r["cex"] = dict(kind="energy", sw=sw, ch=ch, n=n, uc=uc, bytes=None, thr=None)
                rep.notes.append("long-window config (sw=%d, ch=%d, n=%d, use_channel=%r) left the numpy shim (%s); probed concretely" % (sw, ch, n, uc, r.get("why")))
        a.results += [dict(r, config=[sw, ch, n, repr(uc), "long"]) for r in ex.results]
        a.stats.update(ex.stats)
        a.solver_s += ex.solver_s
        a.paths += ex.paths
        a.wall_s += ex.wall_s
        a.entered |= ex.entered
    # the same windows handed over as typed arrays (array.array('h'/'i')): len() and slicing then count items, not bytes
    a = agg.setdefault("energy[typed buffers]", Exploration())
    for sw in (2, 4):
        for ch in (1, 2):
            for n in (2, 3):
                for uc in (None, "mix", 0, -1):
                    ex = explore(harness(L, sw, ch, n, uc, typed=True), workers=1, timeout_ms=60000)
                    a.results += [dict(r, config=[sw, ch, n, repr(uc), "typed"]) for r in ex.results]
                    a.stats.update(ex.stats)
                    a.solver_s += ex.solver_s
                    a.paths += ex.paths
                    a.wall_s += ex.wall_s
                    a.entered |= ex.entered
    for key, a in agg.items():
        rep.add_exploration(key, a)
        tok.handle_cex(rep, key, a, replay_fn, ideal=True)
    rep.witness("some configuration raises ValueError", any(r.get("outcome") == "ValueError" for a in agg.values() for r in a.results))


def run_c18(rep):
    L = loader.load()
    from ..engine import Exploration
    a = Exploration()
    for sw in (1, 2, 4):
        for ch in (1, 2, 3):
            for n in ((1, 3) if rep.tier == "quick" else (1, 2, 3)):
                ex = explore(numpy_harness(L, sw, ch, n), workers=1)
                a.results += ex.results
                a.stats.update(ex.stats)
                a.solver_s += ex.solver_s
                a.paths += ex.paths
                a.wall_s += ex.wall_s
                a.entered |= ex.entered
    rep.add_exploration("numpy-export", a)
    rep.bounds["numpy export"] = "widths 1/2/4 x channels 1..3 x <= 3 samples per channel, every byte symbolic"
    tok.handle_cex(rep, "numpy-export", a, replay_fn)


def run_c20(rep):
    rep.notes.append("validator statelessness: decided inside the C07 harness ('same verdict when asked again'); re-run here for widths 1/2, channels 1/2")
    L = loader.load()
    from ..engine import Exploration
    a = Exploration()
    for sw, ch, uc in ((1, 1, None), (2, 2, None), (2, 2, "mix"), (2, 2, 1)):
        ex = explore(harness(L, sw, ch, 2, uc), workers=1)
        a.results += ex.results
        a.stats.update(ex.stats)
        a.solver_s += ex.solver_s
        a.paths += ex.paths
        a.wall_s += ex.wall_s
    rep.add_exploration("validator-reuse", a)
    tok.handle_cex(rep, "validator-reuse", a, replay_fn, ideal=True)
    b = Exploration()
    for sw, ch in ((1, 1), (2, 2)):
        ex = explore(array_reuse_harness(L, sw, ch, 2), workers=1)
        b.results += ex.results
        b.stats.update(ex.stats)
        b.solver_s += ex.solver_s
        b.paths += ex.paths
        b.wall_s += ex.wall_s
    rep.add_exploration("array-window-reuse", b)
    tok.handle_cex(rep, "array-window-reuse", b, replay_fn, ideal=True)
