"""C11 - audio sources hand out successive whole-sample chunks, then None.
Buffer source: arbitrary position (set through the public API) then sequences of K operations with symbolic
arguments against a model state; file-like sources (raw, wav, stdin) through I/O stubs holding the same bytes."""
import fractions
import io as _io
import os
import sys
import tempfile
import wave as _wave

import z3

from ..engine import explore, S, Unsupported
from ..values import SymBytes, SymInt, SymRat, SymBool, slice_goal, toint, tobool
from ..stubs import iostub
from .. import loader
from . import byt, tok

I = z3.Int
OPS = ["read", "read_none", "set_pos", "get_pos", "rewind", "close", "open", "set_pos_s", "set_pos_ms", "get_pos_ms", "get_pos_s"]
BOUNDS = {"quick": dict(K=2, KF=4), "thorough": dict(K=3, KF=5)}
DEN = 1024


def buffer_harness(iom, sw, ch, sr, K):
    bps = sw * ch

    def path(e):
        D, data = byt.sym_audio(e, "D", bps)
        n = D.nsamples
        p0 = I("p0")
        e.assume(z3.And(p0 >= 0, p0 <= n))
        trace = []
        args = {}
        try:
            src = iom.BufferAudioSource(data, sr, sw, ch)
        except Exception as ex:
            return tok_cex(e, "constructor raised %s" % type(ex).__name__, D, trace, args, sw, ch, sr)
        is_open = bool(e.choose(2))
        first_open = is_open
        pos = p0
        conds = {}
        try:
            if is_open:
                src.open()
            src.position = SymInt(p0)
            conds["initial position reads back"] = toint(src.position) == p0
            conds["is_open"] = src.is_open() is is_open if isinstance(src.is_open(), bool) else tobool(src.is_open()) == is_open
        except Exception as ex:
            return tok_cex(e, "set-up raised %s" % type(ex).__name__, D, trace, args, sw, ch, sr, p0, first_open)
        for step in range(K):
            op = OPS[e.choose(len(OPS))]
            trace.append(op)
            k = I("k%d" % step)
            args[step] = k
            out = exc = None
            try:
                if op == "read":
                    out = src.read(SymInt(k))
                elif op == "read_none":
                    out = src.read(None)
                elif op == "set_pos":
                    src.position = SymInt(k)
                elif op == "get_pos":
                    out = src.position
                elif op == "get_pos_ms":
                    out = src.position_ms
                elif op == "get_pos_s":
                    out = src.position_s
                elif op == "rewind":
                    src.rewind()
                elif op == "close":
                    src.close()
                elif op == "open":
                    src.open()
                elif op == "set_pos_s":
                    src.position_s = SymRat(k, DEN)
                elif op == "set_pos_ms":
                    src.position_ms = SymInt(k)
            except Exception as ex:
                exc = ex
            tag = "%d:%s" % (step, op)
            rem = n - pos
            if op in ("read", "read_none"):
                if not is_open:
                    conds[tag] = isinstance(exc, iom.AudioIOError)
                elif exc is not None:
                    conds[tag] = False
                else:
                    cnt = rem if op == "read_none" else z3.If(k < 0, rem, z3.If(k < rem, k, rem))
                    if out is None:
                        conds[tag] = cnt == 0
                    else:
                        conds[tag] = z3.And(cnt > 0, slice_goal(out, D, pos * bps, (pos + cnt) * bps))
                    pos = S(pos + cnt)
            elif op in ("set_pos", "set_pos_s", "set_pos_ms"):
                if op == "set_pos":
                    t = k
                else:
                    q = DEN if op == "set_pos_s" else 1000
                    x = k * sr                      # target = trunc(x / q)
                    t = e.fresh("t")
                    e.add(z3.If(x >= 0, z3.And(t * q <= x, x < (t + 1) * q), z3.And((t - 1) * q < x, x <= t * q)))
                inrange = z3.And(t >= -n, t <= n)
                if exc is None:
                    conds[tag] = inrange
                    pos = S(z3.If(t < 0, t + n, t))
                else:
                    conds[tag] = z3.And(z3.BoolVal(isinstance(exc, IndexError)), z3.Not(inrange))
            elif op == "get_pos":
                conds[tag] = exc is None and toint(out) == pos
            elif op == "get_pos_ms":
                if exc is None:
                    w = toint(out)
                    conds[tag] = z3.And(w * sr <= pos * 1000, pos * 1000 < (w + 1) * sr)
                else:
                    conds[tag] = False
            elif op == "get_pos_s":
                conds[tag] = exc is None and SymRat.of(out).eqz(SymRat(pos, sr))
            elif op == "rewind":
                conds[tag] = exc is None
                pos = z3.IntVal(0)
            elif op == "close":
                conds[tag] = exc is None
                pos = z3.IntVal(0)
                is_open = False
            elif op == "open":
                conds[tag] = exc is None
                is_open = True
            # the state after every step: position reads back
            try:
                conds[tag + " position after"] = toint(src.position) == pos
            except Exception:
                conds[tag + " position after"] = False
        return tok.discharge(e, conds, lambda m: mk(m, D, trace, args, sw, ch, sr, p0, None, first_open))
    return path


def file_harness(L, kind, sw, ch, sr, KF):
    bps = sw * ch

    def path(e):
        D, data = byt.sym_audio(e, "D", bps)
        n = D.nsamples
        fs = iostub.FS()
        iom = L.modules["io"]
        if kind == "raw":
            fs.files["f.raw"] = iostub.RawEntry(data)
            iostub.install(L, fs)
        elif kind == "wav":
            fs.files["f.wav"] = iostub.WavEntry(data, sr, sw, ch)
            iostub.install(L, fs)
        else:
            iostub.install(L, fs, stdin_data=data)
        trace, args, conds = [], {}, {}
        try:
            if kind == "raw":
                src = iom.RawAudioSource("f.raw", sr, sw, ch)
            elif kind == "wav":
                src = iom.WaveAudioSource("f.wav")
                conds["wav header"] = (src.sampling_rate, src.sample_width, src.channels) == (sr, sw, ch)
            else:
                src = iom.StdinAudioSource(sr, sw, ch)
            try:
                src.read(1)
                conds["read while closed raises"] = False
            except iom.AudioIOError:
                conds["read while closed raises"] = True
            src.open()
        except Exception as ex:
            return tok_cex(e, "set-up raised %s: %s" % (type(ex).__name__, ex), D, trace, args, sw, ch, sr, kind=kind)
        pos = z3.IntVal(0)
        for step in range(KF):
            k = I("k%d" % step)
            args[step] = k
            nops = 2 if kind == "stdin" else 4
            opi = e.choose(nops)
            if kind == "stdin":
                e.assume(k >= 0)
                if opi == 1:
                    # close, check that reading is refused, open again: standard input cannot start over, the stream goes on
                    trace.append("reopen_stream")
                    try:
                        src.close()
                        try:
                            src.read(1)
                            conds["%d:read while closed raises" % step] = False
                        except iom.AudioIOError:
                            pass
                        src.open()
                    except Exception:
                        conds["%d:reopen" % step] = False
                    continue
            if opi == 3:
                # a redundant open() on an open source must not disturb the stream
                trace.append("open_again")
                try:
                    src.open()
                except Exception:
                    conds["%d:redundant open" % step] = False
                continue
            if opi == 2:
                # close, check that reading is refused, reopen: a file source starts again at the beginning
                trace.append("reopen")
                try:
                    src.close()
                    try:
                        src.read(1)
                        conds["%d:read while closed raises" % step] = False
                    except iom.AudioIOError:
                        pass
                    src.open()
                    pos = z3.IntVal(0)
                except Exception:
                    conds["%d:reopen" % step] = False
                continue
            use_none = opi == 1
            trace.append("read_none" if use_none else "read")
            try:
                out = src.read(None if use_none else SymInt(k))
                exc = None
            except Exception as ex:
                out, exc = None, ex
            rem = n - pos
            cnt = rem if use_none else z3.If(k < 0, rem, z3.If(k < rem, k, rem))
            tag = "%d:%s" % (step, trace[-1])
            if exc is not None:
                conds[tag] = False
            elif out is None:
                conds[tag] = cnt == 0
            else:
                conds[tag] = z3.And(cnt > 0, slice_goal(out, D, pos * bps, (pos + cnt) * bps))
            pos = S(pos + cnt)
        try:
            src.close()
            try:
                src.read(1)
                conds["read after close raises"] = False
            except iom.AudioIOError:
                conds["read after close raises"] = True
        except Exception:
            conds["close"] = False
        return tok.discharge(e, conds, lambda m: mk(m, D, trace, args, sw, ch, sr, kind=kind))
    return path


def ms_setter_fp_harness(iom, rate, bits):
    """bit-exact side of `position_ms = m`: the real setter computes a sample index from the int m in double arithmetic.
    m is an integral double M with |rate*M| <= 2**bits (< 2**53: rate*M is exact); whatever expression the setter uses
    (rate*m/1000, rate*(m/1000), ...) the truncated result must be the exact truncated quotient rate*m/1000.
    Decided by cvc5 (QF_FP); z3 returns unknown on this lemma."""
    import z3 as _z3
    from ..fp import SymFP, SymFPInt, F, RNE, fpv

    class Capture(iom.BufferAudioSource):
        captured = None

        @property
        def position(self):
            return 0

        @position.setter
        def position(self, value):
            Capture.captured = value

    class Ms(SymFPInt):
        """stands for the Python int m (an integral double); only float-exact operations are provided by SymFP"""
        __slots__ = ()

        def __sx_isinstance__(self, Ts):
            return True if int in Ts else None

        def __mul__(self, o):
            if isinstance(o, int) and not isinstance(o, bool):
                return SymFPInt(_z3.fpMul(RNE, self.t, fpv(o)))          # int * int: exact below 2**53
            return SymFP.__mul__(self, o)
        __rmul__ = __mul__

    def path(e):
        M = _z3.FP("M", F)
        X = _z3.fpMul(RNE, fpv(float(rate)), M)
        lim = fpv(float(2 ** bits))
        e.add(_z3.And(_z3.fpEQ(M, _z3.fpRoundToIntegral(RNE, M)), _z3.fpGEQ(X, _z3.fpNeg(lim)), _z3.fpLEQ(X, lim),
                      _z3.Not(_z3.fpIsNaN(M)), _z3.Not(_z3.fpIsInf(M))))
        src = Capture(b"", rate, 1, 1)
        Capture.captured = None
        try:
            src.position_ms = Ms(M)
        except Exception as ex:
            return {"status": "unsupported", "why": "setter raised %s: %s" % (type(ex).__name__, str(ex)[:60])}
        t = Capture.captured
        if not isinstance(t, SymFP):
            return {"status": "unsupported", "why": "setter no longer computes the sample index in floating point (%s)" % type(t).__name__}
        rem = _z3.fpSub(RNE, X, _z3.fpMul(RNE, fpv(1000.0), t.t))
        goal = _z3.And(_z3.fpEQ(t.t, _z3.fpRoundToIntegral(_z3.RTZ(), t.t)),
                       _z3.If(_z3.fpGEQ(X, fpv(0.0)), _z3.And(_z3.fpGEQ(rem, fpv(0.0)), _z3.fpLT(rem, fpv(1000.0))),
                              _z3.And(_z3.fpLEQ(rem, fpv(0.0)), _z3.fpGT(rem, fpv(-1000.0)))))
        r = e.second_opinion(goal, tlimit_ms=900000, get_values=("M",))
        e.stats["queries"] += 1
        e.stats["q_" + (r if r in ("sat", "unsat") else "unknown")] += 1
        if r == "unsat":
            return {"status": "ok", "solver": "cvc5", "range": "|rate*ms| <= 2**%d" % bits}
        if r == "sat":
            m = parse_fp_value(e.cvc5_values)
            if m is not None and m == int(m) and abs(int(m) * rate) <= 2 ** 26:
                return {"status": "cex", "failing": ["position_ms setter is not the exact truncated quotient"],
                        "cex": {"kind": "ms-exact", "rate": rate, "m": int(m)}}
            return {"status": "unknown", "why": "cvc5 reports a counterexample to the exact-truncation lemma for |rate*ms| <= 2**%d that is too large to replay (%s)" % (bits, e.cvc5_values)}
        return {"status": "unknown", "why": "cvc5: %s for |rate*ms| <= 2**%d" % (r, bits)}
    return path


def parse_fp_value(text):
    """'((M (fp #b0 #b10000000011 #b0100...)))' -> python float"""
    import re
    import struct
    if not text:
        return None
    m = re.search(r"\(fp #b([01]) #b([01]{11}) #b([01]{52})\)", text)
    if not m:
        return None
    bits = int(m.group(1) + m.group(2) + m.group(3), 2)
    return struct.unpack(">d", struct.pack(">Q", bits))[0]


def replay_ms_exact(c):
    ak = loader.real_auditok()
    from auditok import io as rio
    rate, m = c["rate"], c["m"]
    want = int(__import__("fractions").Fraction(rate * m, 1000))
    n = abs(want) + 2
    src = rio.BufferAudioSource(bytes(n), rate, 1, 1)
    try:
        src.position_ms = m
        got = src.position
    except Exception as ex:
        return [("C11: position_ms raises %s for an in-range value" % type(ex).__name__, "rate %d, position_ms = %d: %s" % (rate, m, ex))]
    exp = want if want >= 0 else n + want
    if got != exp:
        return [("C11: position_ms lands on the wrong sample", "BufferAudioSource(%d samples at %d Hz).position_ms = %d -> position %d, expected %d (= trunc(%d*%d/1000)%s)" % (
            n, rate, m, got, exp, rate, m, " from the end" if want < 0 else ""))]
    return []


_FPJOB = None


def _fp_job(bits):
    return explore(ms_setter_fp_harness(_FPJOB, 16000, bits), workers=1, path_wall_s=1000, deadline_s=1100)


def tok_cex(e, why, D, trace, args, sw, ch, sr, p0=None, is_open=None, kind="buffer"):
    m = e.model()
    if m is None:
        return {"status": "unknown", "why": why}
    return {"status": "cex", "failing": [why], "cex": mk(m, D, trace, args, sw, ch, sr, p0, None, is_open, kind)}


def mk(m, D, trace, args, sw, ch, sr, p0=None, _unused=None, is_open=None, kind="buffer"):
    return {"kind": kind, "sw": sw, "ch": ch, "sr": sr, "n": byt.iv(m, D.nsamples), "p0": None if p0 is None else byt.iv(m, p0),
            "open": is_open, "ops": [(op, byt.iv(m, args[i])) for i, op in enumerate(trace)]}


# ------------------------------------------------------------------ replay
def replay_fn(c):
    if c.get("kind") == "ms-exact":
        return replay_ms_exact(c)
    ak = loader.real_auditok()
    from auditok import io as rio
    sw, ch, sr, n = c["sw"], c["ch"], c["sr"], c["n"]
    bps = sw * ch
    data = byt.concrete_bytes(n * bps)
    desc = "%s source, %d samples (sw=%d ch=%d sr=%d), ops %s" % (c["kind"], n, sw, ch, sr, c["ops"])
    tmp = None
    old_stdin = sys.stdin
    try:
        if c["kind"] == "buffer":
            src = rio.BufferAudioSource(data, sr, sw, ch)
            is_open = bool(c["open"])
            if is_open:
                src.open()
            src.position = c["p0"]
            pos = c["p0"]
            desc += " from position %d, %s" % (pos, "open" if is_open else "closed")
        else:
            tmp = tempfile.mkdtemp(prefix="sxv-c11-")
            if c["kind"] == "raw":
                p = os.path.join(tmp, "f.raw")
                open(p, "wb").write(data)
                src = rio.RawAudioSource(p, sr, sw, ch)
            elif c["kind"] == "wav":
                p = os.path.join(tmp, "f.wav")
                with _wave.open(p, "wb") as w:
                    w.setframerate(sr)
                    w.setsampwidth(sw)
                    w.setnchannels(ch)
                    w.writeframes(data)
                src = rio.WaveAudioSource(p)
            else:
                class _Pipe(_io.BytesIO):
                    def read1(self, k=-1):         # a pipe may hand out fewer bytes than asked for
                        return _io.BytesIO.read(self, 1 if k != 0 else 0)

                class _S:
                    buffer = _Pipe(data)
                sys.stdin = _S()
                src = rio.StdinAudioSource(sr, sw, ch)
            try:
                src.read(1)
                return [("C11: reading a closed %s source does not raise" % c["kind"], desc)]
            except rio.AudioIOError:
                pass
            src.open()
            is_open = True
            pos = 0
        for op, k in c["ops"]:
            exc = out = None
            try:
                if op == "read":
                    out = src.read(k)
                elif op == "read_none":
                    out = src.read(None)
                elif op == "set_pos":
                    src.position = k
                elif op == "get_pos":
                    out = src.position
                elif op == "get_pos_ms":
                    out = src.position_ms
                elif op == "get_pos_s":
                    out = src.position_s
                elif op == "rewind":
                    src.rewind()
                elif op == "close":
                    src.close()
                elif op == "open":
                    src.open()
                elif op == "set_pos_s":
                    src.position_s = k / DEN
                elif op == "set_pos_ms":
                    src.position_ms = k
                elif op == "open_again":
                    src.open()
                elif op == "reopen":
                    src.close()
                    try:
                        src.read(1)
                        return [("C11: reading a closed %s source does not raise" % c["kind"], desc)]
                    except rio.AudioIOError:
                        pass
                    src.open()
                    pos = 0
                elif op == "reopen_stream":
                    src.close()
                    try:
                        src.read(1)
                        return [("C11: reading a closed %s source does not raise" % c["kind"], desc)]
                    except rio.AudioIOError:
                        pass
                    src.open()
            except Exception as ex:
                exc = ex
            bad = None
            if op in ("read", "read_none"):
                if not is_open:
                    if not isinstance(exc, rio.AudioIOError):
                        bad = "read on a closed source: %r / %r" % (out, exc)
                elif exc is not None:
                    bad = "read raised %r" % exc
                else:
                    rem = n - pos
                    cnt = rem if (op == "read_none" or k < 0) else min(k, rem)
                    want = data[pos * bps:(pos + cnt) * bps] if cnt > 0 else None
                    if out != want:
                        bad = "%s(%s) at position %d returned %s, expected %s" % (op, k, pos, None if out is None else "%d bytes" % len(out), None if want is None else "%d bytes [%d:%d]" % (len(want), pos * bps, (pos + cnt) * bps))
                    pos += cnt
            elif op in ("set_pos", "set_pos_s", "set_pos_ms"):
                if op == "set_pos":
                    ts = {k}
                elif op == "set_pos_s":
                    ts = {int(fractions.Fraction(k / DEN) * sr), int(sr * (k / DEN))}
                else:
                    ts = {int(fractions.Fraction(k * sr, 1000)), int(sr * k / 1000)}
                oks = [t for t in ts if -n <= t <= n]
                if exc is None:
                    if not oks:
                        bad = "%s(%s) accepted an out-of-range position" % (op, k)
                    else:
                        cands = {t + n if t < 0 else t for t in oks}
                        if src.position not in cands:
                            bad = "%s(%s): position is %s, expected %s" % (op, k, src.position, sorted(cands))
                        pos = src.position
                elif not isinstance(exc, IndexError) or len(oks) == len(ts):
                    bad = "%s(%s) raised %r" % (op, k, exc)
            elif op == "get_pos":
                if exc is not None or out != pos:
                    bad = "position reads %r, expected %d" % (out if exc is None else exc, pos)
            elif op == "get_pos_ms":
                if exc is not None or out != (pos * 1000) // sr:
                    bad = "position_ms reads %r, expected %d" % (out if exc is None else exc, (pos * 1000) // sr)
            elif op == "get_pos_s":
                if exc is not None or abs(out - pos / sr) > 1e-12:
                    bad = "position_s reads %r" % (out if exc is None else exc)
            elif exc is not None:
                bad = "%s raised %r" % (op, exc)
            elif op in ("rewind", "close"):
                pos = 0
                if op == "close":
                    is_open = False
            elif op == "open":
                is_open = True
            if bad is None and c["kind"] == "buffer" and src.position != pos:
                bad = "after %s(%s) position reads %d, expected %d" % (op, k, src.position, pos)
            if bad:
                return [("C11: %s source: %s misbehaves" % (c["kind"], op), desc + ": " + bad)]
        if c["kind"] != "buffer":
            src.close()
            try:
                src.read(1)
                return [("C11: reading a closed %s source does not raise" % c["kind"], desc)]
            except rio.AudioIOError:
                pass
        return []
    except Exception as ex:
        return [("C11: %s source raises %s" % (c["kind"], type(ex).__name__), desc + ": %s" % ex)]
    finally:
        sys.stdin = old_stdin
        if tmp:
            import shutil
            shutil.rmtree(tmp, ignore_errors=True)


def replay(c):
    f = replay_fn(c)
    return (bool(f), f[0][1] if f else "property holds on the real code for this input")


def run(rep):
    tok.VALIDATE[0] = replay_fn
    b = BOUNDS[rep.tier]
    L = loader.load(("exceptions", "io"))
    iom = L.modules["io"]
    rep.hashes = L.hashes
    tier = rep.tier
    rep.bounds = {"buffer source": "source length n, start position p0 in [0,n], open flag, then every sequence of %d operations out of %s with unbounded integer arguments (seconds as p/%d)" % (b["K"], OPS, DEN),
                  "file sources": "raw, wav, stdin over I/O stubs; every sequence of %d read(k)/read(None) calls with unbounded k; n unbounded" % b["KF"],
                  "formats": "(sample_width, channels) in %s, rate in %s" % (byt.fmts(tier)[:3], byt.rates(tier)[:2])}
    rep.explanation = ("Real BufferAudioSource/RawAudioSource/WaveAudioSource/StdinAudioSource executed over an uninterpreted byte "
                       "sequence of unbounded length; each operation's result is compared by z3 with a model state (position, open).")
    rep.assumptions = ["I/O stubs: read(k) returns exactly min(k, remaining) bytes and b'' at end; wave.readframes(-1) returns all remaining frames",
                       "position_s / position_ms: float arithmetic idealised as exact rationals (int(rate*ms/1000) bit-exactness is outside the claim)"]
    rep.outside = ["PyAudioSource (microphone)", "IEEE rounding in the seconds/milliseconds setters", "stdin with None/negative sizes (the statement excludes them)"]
    # bit-exact arithmetic of the milliseconds setter (extra evidence; cvc5 decides, z3 does not): runs beside the rest
    global _FPJOB
    _FPJOB = iom
    import multiprocessing as mp
    widths = (24,) if tier == "quick" else (32, 40, 49)
    fppool = mp.get_context("fork").Pool(len(widths))
    fpres = fppool.map_async(_fp_job, widths)
    for (sw, ch) in byt.fmts(tier)[:3]:
        for sr in byt.rates(tier)[:2]:
            hn = "buffer[sw=%d,ch=%d,sr=%d,K=%d]" % (sw, ch, sr, b["K"])
            ex = explore(buffer_harness(iom, sw, ch, sr, b["K"]))
            rep.add_exploration(hn, ex)
            tok.handle_cex(rep, hn, ex, replay_fn, ideal=True)
    for kind in ("raw", "wav", "stdin"):
        for (sw, ch) in byt.fmts(tier)[:2]:
            hn = "%s[sw=%d,ch=%d,K=%d]" % (kind, sw, ch, b["KF"])
            ex = explore(file_harness(L, kind, sw, ch, 10, b["KF"]))
            rep.add_exploration(hn, ex)
            tok.handle_cex(rep, hn, ex, replay_fn)
    exs = fpres.get()
    fppool.terminate()
    for bits, ex in zip(widths, exs):
        rep.add_exploration("position_ms-exact[|rate*ms|<=2^%d]" % bits, ex)
        tok.handle_cex(rep, "position_ms-exact", ex, replay_fn)
        for r in ex.results:
            if r["status"] == "unknown":
                rep.inconclusive.append("position_ms exactness for 2^%d: %s" % (bits, r.get("why")))
    rep.bounds["position_ms bit-exact"] = "int(rate*ms/1000) equals the exact truncated quotient for every |rate*ms| <= 2^%s (cvc5, QF_FP)" % (list(widths),)
