"""Shared pieces for the byte-level properties: symbolic audio buffers, configurations, model extraction."""
import random

import z3

from ..engine import S
from ..values import SymBytes, SymInt, SymRat, Base, toint, tobool

I = z3.Int

FMT_QUICK = [(1, 1), (2, 2), (2, 1), (4, 3)]      # a multichannel format second, so that every [:2] selection has one
FMT_THOROUGH = [(sw, ch) for sw in (1, 2, 4) for ch in (1, 2, 3)]
RATES_QUICK = [10, 16000]
RATES_THOROUGH = [1, 10, 8000, 16000, 44100]


def fmts(tier):
    return FMT_QUICK if tier == "quick" else FMT_THOROUGH


def rates(tier):
    return RATES_QUICK if tier == "quick" else RATES_THOROUGH


def sym_audio(e, name, bps, n=None, nonneg=True):
    """an uninterpreted byte sequence holding n whole samples (n unbounded symbolic unless given)"""
    n = I(name + "_n") if n is None else n
    if nonneg:
        e.assume(n >= 0)
    base = Base(name, S(n * bps))
    base.nsamples = n
    return base, SymBytes.whole(base)


def iv(m, t):
    v = m.eval(toint(t), model_completion=True)
    return v.as_long()


def bv(m, t):
    return bool(z3.is_true(m.eval(tobool(t), model_completion=True)))


def concrete_bytes(nbytes, seed=None, tag=0):
    """content is irrelevant to the path (paths depend on lengths only); use a seeded non-periodic pattern so that
    offset mistakes show up in the byte comparison of the replay"""
    if seed is None:
        import os
        try:
            seed = int(os.environ.get("VERIF_SEED", "0"))
        except ValueError:
            seed = 0
    r = random.Random(seed * 7919 + tag)
    return bytes(r.randrange(256) for _ in range(nbytes))


def clamp_index(a, n):
    """python slice index normalisation as an LIA term; a: z3 Int term or None (handled by caller)"""
    return z3.If(a < 0, z3.If(a + n < 0, 0, a + n), z3.If(a > n, n, a))


def py_slice_terms(a, b, n):
    lo = z3.IntVal(0) if a is None else clamp_index(toint(a), n)
    hi = n if b is None else clamp_index(toint(b), n)
    return lo, hi


def sym_max_read(e, sr):
    """max_read given in quarter samples: returns (SymRat duration, expected visible sample count M = round-half-even(Mq/4), Mq)"""
    Mq = I("Mq")          # may be negative: nothing is visible then
    a, b, c, d = e.fresh("a"), e.fresh("b"), e.fresh("c"), e.fresh("d")
    e.add(z3.And(Mq == 4 * a + b, b >= 0, b < 4, a == 2 * c + d, d >= 0, d < 2))
    M = z3.If(b <= 1, a, z3.If(b == 3, a + 1, z3.If(d == 0, a, a + 1)))
    M = z3.If(M < 0, 0, M)
    return SymRat(Mq, 4 * sr), M, Mq


def max_read_concrete(Mq, sr):
    """(float duration, expected M) or None when the float does not carry the idealised value"""
    import fractions
    mr = Mq / (4 * sr)
    M = round(fractions.Fraction(Mq, 4))
    if round(mr * sr) != M or round(fractions.Fraction(mr) * sr) != M:
        return None
    return mr, max(M, 0)
