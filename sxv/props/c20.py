"""C20 - results never depend on an object's earlier use.
Tokenizer: (a) stale-state over-approximation: every per-run field arbitrary, real tokenize() vs a fresh object;
(b) real two-run histories (first stream consumed completely / partially / abandoned).  Only (b) is reported.
Other objects: c20_others (bytes harness)."""
import z3

from ..engine import explore
from ..values import SymBool, SymInt, tobool, toint
from .. import loader, oracles
from . import tok

BOUNDS = {"quick": dict(N=5, N1=3, N2=3), "thorough": dict(N=7, N1=3, N2=5)}
I = z3.Int


def tokens_equal(a, b):
    if len(a) != len(b):
        return False
    cs = []
    for (d1, s1, e1), (d2, s2, e2) in zip(a, b):
        if len(d1) != len(d2) or any(x is not y for x, y in zip(d1, d2)):
            return False
        cs.append(z3.And(toint(s1) == toint(s2), toint(e1) == toint(e2)))
    return z3.And(*cs) if cs else True


def stale_harness(core, N, mode, with_init):
    def path(e):
        P = tok.sym_params(e, with_init)
        frames = tok.sym_frames(N)
        try:
            fresh = tok.make_tokenizer(core, P, mode, with_init).tokenize(tok.Src(frames))
            used = tok.make_tokenizer(core, P, mode, with_init)
            st = {k: I("stale" + k) for k in ("_state", "_init_count", "_silence_length", "_start_frame", "_current_frame")}
            e.assume(z3.And(st["_state"] >= 0, st["_state"] <= 3, st["_init_count"] >= 0, st["_silence_length"] >= 0,
                            st["_start_frame"] >= 0, st["_current_frame"] >= -1))
            for k, t in st.items():
                if hasattr(used, k):
                    setattr(used, k, SymInt(t))
            if hasattr(used, "_contiguous_token"):
                used._contiguous_token = SymBool(z3.Bool("stale_contig"))
            if hasattr(used, "_data"):
                used._data = [tok.Frame(-5, SymBool(z3.Bool("stale_v")))]
            if hasattr(used, "_tokens"):
                used._tokens = [("junk", -1, -1)]
            again = used.tokenize(tok.Src(frames))
        except Exception as ex:
            return {"status": "stale_differs", "failing": ["raised %s" % type(ex).__name__]}
        r, m = e.refute(tobool(tokens_equal(fresh, again)))
        if r == "unsat":
            return {"status": "ok"}
        if r == "sat":
            return {"status": "stale_differs", "failing": ["tokens differ from a fresh tokenizer"],
                    "stale": {str(d): str(m[d]) for d in m.decls() if d.name().startswith("stale")}}
        return {"status": "unknown"}
    return path


def history_harness(core, N1, N2, mode, with_init):
    def path(e):
        P = tok.sym_params(e, with_init)
        f1 = [tok.Frame(i, SymBool(z3.Bool("u%d" % i))) for i in range(N1)]
        f2 = tok.sym_frames(N2)
        used = tok.make_tokenizer(core, P, mode, with_init)
        how = e.choose(5)     # 4: a later run is in progress when the earlier, partially consumed generator is closed
        #                       0: complete list run, 1: generator consumed for j items then dropped, 2: generator closed,
        #                       3: both generators requested first, the earlier one consumed (j items) before the later one
        j = None
        try:
            g2 = None
            if how == 0:
                used.tokenize(tok.Src(f1))
            else:
                g = used.tokenize(tok.Src(f1), generator=True)
                if how == 3:
                    g2 = used.tokenize(tok.Src(f2), generator=True)
                j = e.choose(N1 + 1)
                for _ in range(j):
                    try:
                        next(g)
                    except StopIteration:
                        break
                if how == 2:
                    g.close()
            if how == 4:
                g2 = used.tokenize(tok.Src(f2), generator=True)
                first = []
                try:
                    first.append(next(g2))
                except StopIteration:
                    pass
                g.close()
                again = first + list(g2)
            else:
                again = list(g2) if g2 is not None else used.tokenize(tok.Src(f2))
            fresh = tok.make_tokenizer(core, P, mode, with_init).tokenize(tok.Src(f2))
        except Exception as ex:
            m = e.model()
            return {"status": "cex", "failing": ["raised %s" % type(ex).__name__],
                    "cex": mk(m, N1, N2, P, mode, with_init, how, j) if m is not None else None}
        r = tok.discharge(e, {"same": tokens_equal(fresh, again)}, lambda m: mk(m, N1, N2, P, mode, with_init, how, j))
        return r
    return path


def mk(m, N1, N2, P, mode, with_init, how, j):
    c = tok.cex_from_model(m, N2, P, mode, with_init)
    c["first"] = [bool(z3.is_true(m.eval(z3.Bool("u%d" % i), model_completion=True))) for i in range(N1)]
    c["how"] = how
    c["consumed"] = j
    return c


def replay_fn(c):
    ak = loader.real_auditok()

    def mkt():
        return ak.StreamTokenizer(lambda f: f.valid, c["min_length"], c["max_length"], c["mcs"], init_min=c.get("init_min", 0),
                                  init_max_silence=c.get("init_max_silence", 0), mode=c["mode"])
    f1 = [oracles.CFrame(i, b) for i, b in enumerate(c["first"])]
    f2 = [oracles.CFrame(i, b) for i, b in enumerate(c["valid"])]
    used = mkt()
    try:
        g2 = None
        if c["how"] == 0:
            used.tokenize(oracles.CSource(f1))
        else:
            g = used.tokenize(oracles.CSource(f1), generator=True)
            if c["how"] == 3:
                g2 = used.tokenize(oracles.CSource(f2), generator=True)
            for _ in range(c["consumed"] or 0):
                try:
                    next(g)
                except StopIteration:
                    break
            if c["how"] == 2:
                g.close()
        def sig(toks):
            return [(s, e, ["2:%d" % f2.index(f) if any(f is g for g in f2) else "1:%d" % f.pos for f in d]) for d, s, e in toks]
        if c["how"] == 4:
            g2 = used.tokenize(oracles.CSource(f2), generator=True)
            first = []
            try:
                first.append(next(g2))
            except StopIteration:
                pass
            g.close()
            again = sig(first + list(g2))
        else:
            again = sig(list(g2) if g2 is not None else used.tokenize(oracles.CSource(f2)))
        fresh = sig(mkt().tokenize(oracles.CSource(f2)))
    except Exception as ex:
        return [("C20: reused tokenizer raises %s" % type(ex).__name__, "%s after first stream '%s': %s" % (tok.describe(c), tok.stream_str(c["first"]), ex))]
    if again == fresh:
        return []
    hist = {0: "a complete run", 1: "a generator consumed for %s items and dropped" % c["consumed"], 2: "a generator consumed for %s items and closed" % c["consumed"],
            3: "both generators requested up front and %s items of the earlier one consumed first" % c["consumed"],
            4: "a generator consumed for %s items, closed while the second run was in progress (after its first token)" % c["consumed"]}[c["how"]]
    return [("C20: reused tokenizer differs from a fresh one", "%s after %s on '%s': reused %s, fresh %s" % (
        tok.describe(c), hist, tok.stream_str(c["first"]), again, fresh))]


def replay(c):
    if c.get("kind"):
        from . import c20_others
        return c20_others.replay(c)
    f = replay_fn(c)
    return (bool(f), f[0][1] if f else "property holds on the real code for this input")


def run(rep):
    tok.VALIDATE[0] = replay_fn
    b = BOUNDS[rep.tier]
    L = loader.load()
    core = L.core
    rep.hashes = L.hashes
    rep.bounds = {"stale_state": "every per-run field of the tokenizer arbitrary (over-approximates any history); second stream <= %d frames" % b["N"],
                  "histories": "first stream <= %d frames (complete / generator consumed for any number of items then dropped or closed), second stream <= %d frames; unbounded parameters; 4 modes" % (b["N1"], b["N2"])}
    rep.explanation = ("(a) per-run fields set to arbitrary symbolic values, real tokenize() vs fresh object, z3 asked for a difference; "
                       "(b) real two-run histories on symbolic streams. Only (b) counterexamples, replayed, are violations.")
    rep.assumptions = ["validator is a pure function of the frame"]
    rep.outside = ["first streams longer than the bound (covered only by the over-approximation (a))"]
    stale_diff = False
    for with_init in (False, True):
        for mode in ((0, 6) if rep.tier == "quick" else tok.MODES):
            hn = "stale[N<=%d,mode=%d,%s]" % (b["N"], mode, "init" if with_init else "noinit")
            ex = explore(stale_harness(core, b["N"], mode, with_init))
            rep.add_exploration(hn, ex, bounds={"frames": b["N"], "mode": mode})
            if any(r["status"] == "stale_differs" for r in ex.results):
                stale_diff = True
                rep.notes.append("%s: stale-state over-approximation shows a dependence: %s" % (
                    hn, next(r for r in ex.results if r["status"] == "stale_differs").get("stale")))
    rep.witness("stale-state over-approximation finds no dependence", not stale_diff)
    for with_init in (False, True):
        for mode in (((0,) if with_init else (0, 6)) if rep.tier == "quick" else tok.MODES):
            hn = "history[N1<=%d,N2<=%d,mode=%d,%s]" % (b["N1"], b["N2"], mode, "init" if with_init else "noinit")
            ex = explore(history_harness(core, b["N1"], b["N2"], mode, with_init))
            rep.add_exploration(hn, ex, bounds={"first": b["N1"], "second": b["N2"], "mode": mode})
            tok.handle_cex(rep, hn, ex, replay_fn)
    try:
        from . import c20_others
    except ImportError:
        c20_others = None
        rep.notes.append("non-tokenizer objects: not built")
    if c20_others:
        c20_others.run(rep)
