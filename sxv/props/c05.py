"""C05 - split() regions are the input's own bytes at the reported times.
B-shape: real split()/AudioRegion.split over an uninterpreted byte sequence; n samples and window size B unbounded
symbolic integers, the only bound is the number of windows K.  Activity decisions are a stub validator returning
one symbolic bit per window; window counts come from a stub for _duration_to_nb_windows (C06 owns it)."""
import z3

from ..engine import explore, S
from ..values import SymBytes, SymBool, SymInt, SymRat, slice_goal, toint, tobool
from .. import loader, oracles
from . import byt, tok

I = z3.Int
BOUNDS = {"quick": dict(K=4), "thorough": dict(K=6)}


def split_setup(e, core, bps, sr, K):
    """common symbolic set-up: returns (D, data, n, B, P, calls, validator)"""
    D, data = byt.sym_audio(e, "D", bps)
    n = D.nsamples
    B, Bq, Br = I("B"), I("Bq"), I("Br")
    # the analysis window is given with quarter-sample resolution: aw = Bq/(4*rate), effective window B = floor(Bq/4) samples
    e.assume(z3.And(Bq == 4 * B + Br, Br >= 0, Br < 4, B >= 1, n <= K * B))
    P = {"mn": I("min_length"), "mx": I("max_length"), "ms": I("mcs")}
    e.assume(z3.And(P["mn"] >= 1, P["mn"] <= P["mx"], P["ms"] >= 0, P["ms"] < P["mx"]))
    seq = iter([SymInt(P["mn"]), SymInt(P["mx"]), SymInt(P["ms"])])
    core._duration_to_nb_windows = lambda *a, **k: next(seq)
    calls = []

    def validator(frame):
        k = len(calls)
        calls.append(frame)
        return SymBool(z3.Bool("v%d" % k))
    split_setup.aw = SymRat(Bq, 4 * sr)
    return D, data, n, B, P, calls, validator


def region_conds(conds, regs, D, n, B, bps, sr, sw, ch):
    """per-region obligations; returns list of (start window, length term in bytes)"""
    shape = []
    prev_end = None
    for i, r in enumerate(regs):
        st = SymRat.of(r.start)
        ln = r.data.length() if isinstance(r.data, SymBytes) else z3.IntVal(len(r.data))
        # start is a whole number of windows: find it among the K candidates (the token start frame is concrete)
        s = None
        for kk in range(64):
            if Engine_entails(st.eqz(SymRat(kk * B, sr))):
                s = kk
                break
        if s is None:
            conds[("start is a whole number of windows", i)] = False
            continue
        conds[("bytes", i)] = slice_goal(r.data, D, s * B * bps, s * B * bps + ln)
        q = SymInt(ln) % bps
        conds[("whole samples", i)] = q.t == 0
        conds[("params", i)] = z3.And(tobool(r.sampling_rate == sr), tobool(r.sample_width == sw), tobool(r.channels == ch))
        conds[("duration = samples/rate", i)] = SymRat.of(r.duration).eqz(SymRat(ln, bps * sr))
        conds[("end - start = duration", i)] = (SymRat.of(r.end) - st).eqz(r.duration)
        conds[("len()", i)] = toint(type(r).__len__(r)) * bps == ln
        if prev_end is not None:
            conds[("ordered, disjoint", i)] = tobool(st >= prev_end)
        prev_end = SymRat.of(r.end)
        shape.append((s, ln))
    return shape


def Engine_entails(c):
    from ..engine import Engine
    return Engine.cur.entails(c)


def harness(L, sw, ch, sr, K, mode, via):
    bps = sw * ch
    core = L.modules["core"]
    drop, strict = bool(mode & 4), bool(mode & 2)

    def path(e):
        D, data, n, B, P, calls, validator = split_setup(e, core, bps, sr, K)
        meta = dict(sw=sw, ch=ch, sr=sr, K=K, mode=mode, via=via)
        kw = dict(min_dur=1, max_dur=1, max_silence=1, drop_trailing_silence=drop, strict_min_dur=strict,
                  analysis_window=split_setup.aw, validator=validator)
        try:
            if via == "function":
                regs = list(core.split(data, sr=sr, sw=sw, ch=ch, **kw))
            elif via == "method":
                regs = list(core.AudioRegion(data, sr, sw, ch).split(**kw))
            elif via == "recorder":
                # a recording reader (record=True / Recorder) handed to split() before anything was read from it
                kw2 = {k: v for k, v in kw.items() if k != "analysis_window"}
                cls = L.modules["util"].Recorder if e.choose(2) else None
                rd = cls(data, block_dur=split_setup.aw, sr=sr, sw=sw, ch=ch) if cls else L.modules["util"].AudioReader(
                    data, block_dur=split_setup.aw, sr=sr, sw=sw, ch=ch, record=True)
                regs = list(core.split(rd, **kw2))
            else:
                # an AudioRegion that carries its own start time (it came out of an earlier split) and a caller who also passes
                # audio parameters: the region's own format wins and times are counted from the beginning of the input
                st = I("in_start")
                e.assume(st >= 0)
                reg_in = core.AudioRegion(data, sr, sw, ch, start=SymRat(st, 1000))
                other = dict(sampling_rate=sr + 1, channels=ch + 1, sample_width=(4 if sw != 4 else 2)) if via == "region+kwargs" else {}
                if e.choose(2):
                    regs = list(core.split(reg_in, **other, **kw))
                else:
                    regs = list(reg_in.split(**other, **kw))
        except Exception as ex:
            return now(e, "split raised %s: %s" % (type(ex).__name__, str(ex)[:80]), D, B, P, calls, meta)
        conds = {}
        shape = region_conds(conds, regs, D, n, B, bps, sr, sw, ch)
        # the validator saw window k = D[k*B : min((k+1)*B, n)] for k = 0 .. ceil(n/B)-1, in order
        nw = len(calls)
        conds[("number of windows", 0)] = z3.And((nw - 1) * B < n, n <= nw * B) if nw else n == 0
        for k, fr in enumerate(calls):
            hi = z3.If((k + 1) * B < n, (k + 1) * B, n)
            conds[("window", k)] = slice_goal(fr, D, k * B * bps, hi * bps)
        # tie to the tokenizer (C01-C04): same segmentation of the same decisions
        frames = [tok.Frame(k, SymBool(z3.Bool("v%d" % k))) for k in range(nw)]
        tk = core.StreamTokenizer(tok.validator, SymInt(P["mn"]), SymInt(P["mx"]), SymInt(P["ms"]), mode=mode)
        toks = tk.tokenize(tok.Src(frames))
        same = len(toks) == len(shape)
        conds[("same number of regions as tokens", 0)] = same
        if same:
            for i, ((d, s, en), (rs, ln)) in enumerate(zip(toks, shape)):
                last = z3.If((en + 1) * B < n, (en + 1) * B, n)
                conds[("region = token", i)] = z3.And(z3.BoolVal(s == rs), ln == (last - s * B) * bps)
        r = tok.discharge(e, conds, lambda m: mk(m, D, B, P, calls, meta))
        r["regions"] = len(regs)
        r["windows"] = nw
        return r
    return path


def wiring_harness(L, sw, ch, sr, uc):
    """the built-in validator is built from exactly the requested threshold and channel selection and the input's format"""
    core = L.modules["core"]
    bps = sw * ch

    def path(e):
        D, data = byt.sym_audio(e, "D", bps)
        e.assume(D.nsamples <= 2)
        seen = []

        class Rec:
            def __init__(self, energy_threshold, sample_width, channels, use_channel=None):
                seen.append((energy_threshold, sample_width, channels, use_channel))

            def is_valid(self, d):
                return False
        core.DataValidator.register(Rec)
        orig = core.AudioEnergyValidator
        core.AudioEnergyValidator = Rec
        eth = I("eth8")
        meta = dict(kind="wiring", sw=sw, ch=ch, sr=sr, uc=uc)
        core._duration_to_nb_windows = lambda d, *a, **k: {0.2: 1, 5: 2, 0.3: 0}[d]
        try:
            list(core.split(data, sr=sr, sw=sw, ch=ch, analysis_window=SymRat(1, sr), energy_threshold=SymRat(eth, 8), use_channel=uc))
            list(core.AudioRegion(data, sr, sw, ch).split(analysis_window=SymRat(1, sr), eth=SymRat(eth, 8), uc=uc))
            list(core.split(data, sr=sr, sw=sw, ch=ch, analysis_window=SymRat(1, sr)))
        except Exception as ex:
            m = e.model()
            return {"status": "cex", "failing": ["raised %s: %s" % (type(ex).__name__, str(ex)[:80])], "cex": dict(meta, eth8=byt.iv(m, eth), n=byt.iv(m, D.nsamples))}
        finally:
            core.AudioEnergyValidator = orig
        conds = {"three validators built": len(seen) == 3}
        if len(seen) == 3:
            for i in (0, 1):
                conds[("threshold reaches the validator unchanged", i)] = SymRat.of(seen[i][0]).eqz(SymRat(eth, 8))
                conds[("format and selection reach the validator", i)] = (seen[i][1], seen[i][2], seen[i][3]) == (sw, ch, uc)
            conds["defaults"] = (seen[2][0], seen[2][3]) == (50, None)
        return tok.discharge(e, conds, lambda m: dict(meta, eth8=byt.iv(m, eth), n=byt.iv(m, D.nsamples)))
    return path


def replay_wiring(c):
    ak = loader.real_auditok()
    import auditok.core as rcore
    seen = []

    class Rec(rcore.DataValidator):
        def __init__(self, energy_threshold, sample_width, channels, use_channel=None):
            seen.append((energy_threshold, sample_width, channels, use_channel))

        def is_valid(self, d):
            return False
    orig = rcore.AudioEnergyValidator
    rcore.AudioEnergyValidator = Rec
    sw, ch, sr = c["sw"], c["ch"], c["sr"]
    data = byt.concrete_bytes(c["n"] * sw * ch)
    eth = c["eth8"] / 8
    try:
        list(ak.split(data, sr=sr, sw=sw, ch=ch, analysis_window=1 / sr, energy_threshold=eth, use_channel=c["uc"]))
        list(ak.AudioRegion(data, sr, sw, ch).split(analysis_window=1 / sr, eth=eth, uc=c["uc"]))
        list(ak.split(data, sr=sr, sw=sw, ch=ch, analysis_window=1 / sr))
    except Exception as ex:
        return [("C05: split with the built-in validator raises %s" % type(ex).__name__, str(ex))]
    finally:
        rcore.AudioEnergyValidator = orig
    want = [(eth, sw, ch, c["uc"]), (eth, sw, ch, c["uc"]), (50, sw, ch, None)]
    if seen != want:
        return [("C05: activity decisions are not taken with the requested threshold / channel selection",
                 "split(energy_threshold=%r, use_channel=%r) on %d-byte samples x %d channels builds validators %s, expected %s" % (eth, c["uc"], sw, ch, seen, want))]
    return []


def now(e, why, D, B, P, calls, meta):
    m = e.model()
    if m is None:
        return {"status": "unknown", "why": why}
    return {"status": "cex", "failing": [why], "cex": mk(m, D, B, P, calls, meta)}


def mk(m, D, B, P, calls, meta):
    c = dict(meta)
    c.update(n=byt.iv(m, D.nsamples), B=byt.iv(m, B), Bq=byt.iv(m, I("Bq")), min_length=byt.iv(m, P["mn"]), max_length=byt.iv(m, P["mx"]), mcs=byt.iv(m, P["ms"]),
             valid=[byt.bv(m, z3.Bool("v%d" % k)) for k in range(max(len(calls), meta["K"]))])
    return c


# ------------------------------------------------------------------ replay
def concrete_split(ak, c, data, via=None, extra=None):
    """runs the real split() with the window counts forced through the public duration arguments:
    analysis_window = B/sr, min_dur = mn*B/sr etc. (exact multiples; the K-lemma of C06 is not involved because
    the replay patches _duration_to_nb_windows the same way the harness does)"""
    import auditok.core as rcore
    sw, ch, sr, B = c["sw"], c["ch"], c["sr"], c["B"]
    import itertools
    seq = itertools.cycle([c["min_length"], c["max_length"], c["mcs"]])
    orig = rcore._duration_to_nb_windows
    rcore._duration_to_nb_windows = lambda *a, **k: next(seq)
    calls = []
    valid = c["valid"]

    def validator(frame):
        k = len(calls)
        calls.append(frame)
        return valid[k] if k < len(valid) else False
    kw = dict(min_dur=1, max_dur=1, max_silence=1, drop_trailing_silence=bool(c["mode"] & 4), strict_min_dur=bool(c["mode"] & 2),
              analysis_window=c.get("Bq", 4 * B) / (4 * sr), validator=validator)
    if extra:
        kw.update(extra)
    try:
        v_ = via or c.get("via")
        if v_ == "recorder":
            kw2 = {k: v for k, v in kw.items() if k != "analysis_window"}
            regs = list(ak.split(ak.AudioReader(data, block_dur=kw["analysis_window"], sr=sr, sw=sw, ch=ch, record=True), **kw2))
            calls_a = list(calls)
            del calls[:]
            regs_b = list(ak.split(ak.Recorder(data, block_dur=kw["analysis_window"], sr=sr, sw=sw, ch=ch), **kw2))
            if [(r.start, r.data) for r in regs] != [(r.start, r.data) for r in regs_b]:
                regs = regs_b
        elif v_ in ("region+kwargs", "region+start"):
            other = dict(sampling_rate=sr + 1, channels=ch + 1, sample_width=(4 if sw != 4 else 2)) if v_ == "region+kwargs" else {}
            reg_in = ak.AudioRegion(data, sr, sw, ch, start=2.5)
            regs = list(ak.split(reg_in, **other, **kw))
            calls2 = list(calls)
            del calls[:]
            regs2 = list(reg_in.split(**other, **kw))
            if [(r.start, r.data, r.sr, r.sw, r.ch) for r in regs] != [(r.start, r.data, r.sr, r.sw, r.ch) for r in regs2]:
                regs = regs2
        elif v_ == "method":
            regs = list(ak.AudioRegion(data, sr, sw, ch).split(**kw))
        else:
            regs = list(ak.split(data, sr=sr, sw=sw, ch=ch, **kw))
    finally:
        rcore._duration_to_nb_windows = orig
    return regs, calls


def replay_fn(c):
    if c.get("kind") == "wiring":
        return replay_wiring(c)
    ak = loader.real_auditok()
    sw, ch, sr, B, n = c["sw"], c["ch"], c["sr"], c["B"], c["n"]
    bps = sw * ch
    if int((c.get("Bq", 4 * B) / (4 * sr)) * sr) != B:
        return []
    data = byt.concrete_bytes(n * bps)
    desc = "split(%d samples sw=%d ch=%d sr=%d, window=%d samples, counts=(%d,%d,%d), mode=%d, decisions=%s, via %s)" % (
        n, sw, ch, sr, B, c["min_length"], c["max_length"], c["mcs"], c["mode"], tok.stream_str(c["valid"]), c["via"])
    try:
        regs, calls = concrete_split(ak, c, data)
    except Exception as ex:
        return [("C05: split raises %s" % type(ex).__name__, desc + ": %s" % ex)]
    nw = -(-n // B)
    if len(calls) != nw or any(calls[k] != data[k * B * bps:(k + 1) * B * bps] for k in range(len(calls))):
        return [("C05: validator does not see the successive analysis windows", desc + ": %d validator calls for %d windows" % (len(calls), nw))]
    frames, toks, _ = oracles.run_tokenizer(ak, c["valid"][:nw], c["min_length"], c["max_length"], c["mcs"], 0, 0, c["mode"])
    if len(toks) != len(regs):
        return [("C05: number of regions differs from the tokenizer segmentation", desc + ": %d regions, %d tokens" % (len(regs), len(toks)))]
    prev_end = None
    for i, (r, (d, s, en)) in enumerate(zip(regs, toks)):
        want = data[s * B * bps:(en + 1) * B * bps]
        if r.data != want:
            return [("C05: region bytes are not the input bytes at the reported position", desc + ": region %d has %d bytes, windows %d..%d hold %d" % (i, len(r.data), s, en, len(want)))]
        if (r.sr, r.sw, r.ch) != (sr, sw, ch):
            return [("C05: region audio parameters differ from the input's", desc)]
        if abs(r.start - s * B / sr) > 1e-9 or abs(r.end - r.start - r.duration) > 1e-9 or abs(r.duration - len(r.data) / (bps * sr)) > 1e-12:
            return [("C05: region start/end/duration inconsistent", desc + ": region %d start=%r end=%r duration=%r, expected start %r" % (i, r.start, r.end, r.duration, s * B / sr))]
        if prev_end is not None and r.start < prev_end - 1e-9:
            return [("C05: regions overlap or are out of order", desc)]
        prev_end = r.end
    return []


def replay(c):
    f = replay_fn(c)
    return (bool(f), f[0][1] if f else "property holds on the real code for this input")


def run(rep):
    tok.VALIDATE[0] = replay_fn
    b = BOUNDS[rep.tier]
    L = loader.load()
    rep.hashes = L.hashes
    tier = rep.tier
    K = b["K"]
    rep.bounds = {"windows": "at most %d analysis windows (n <= %d*B); sample count n unbounded; analysis_window = Bq/(4*rate) with Bq an unbounded integer (quarter-sample resolution, effective window B = floor(Bq/4) samples); partial last window allowed" % (K, K),
                  "window counts": "min/max/silence counts unbounded integers (stub for _duration_to_nb_windows)",
                  "enumerated": "formats %s, rates %s, 4 modes, split() function and AudioRegion.split method" % (byt.fmts(tier), byt.rates(tier)[:2])}
    rep.explanation = ("Real split -> AudioReader -> BufferAudioSource -> StreamTokenizer -> _make_audio_region -> AudioRegion chain executed on "
                       "an uninterpreted byte sequence; per path z3 proves each region's bytes are D[s*B*bps : ...], whole samples, consistent "
                       "start/end/duration, ordered, and equal to the tokenizer segmentation of the same decisions.")
    rep.assumptions = ["activity decisions: stub validator, one symbolic bit per window (C07 owns the energy rule)",
                       "window counts: stub for _duration_to_nb_windows (C06 owns it)",
                       "times as exact rationals (end - start = duration is not bit-exact in IEEE doubles for any implementation)"]
    rep.outside = ["inputs longer than %d windows" % K, "file inputs (C09)"]
    cfgs = []
    fm = byt.fmts(tier)
    for i, (sw, ch) in enumerate(fm):
        for mode in (tok.MODES if (i == 0 or tier == "thorough") else (tok.MODES[i % 4],)):
            cfgs.append((sw, ch, byt.rates(tier)[i % 2], mode, "function" if i % 2 == 0 else "method"))
    cfgs += [(2, 1, 10, 0, "region+kwargs"), (1, 2, 10, 4, "region+start"), (2, 1, 16000, 2, "recorder"), (1, 1, 16000, 6, "function")]
    if tier == "thorough":
        cfgs += [(2, 1, 16000, m, "method") for m in tok.MODES]
    for (sw, ch, sr, mode, via) in cfgs:
        hn = "split[sw=%d,ch=%d,sr=%d,K=%d,mode=%d,%s]" % (sw, ch, sr, K, mode, via)
        ex = explore(harness(L, sw, ch, sr, K, mode, via))
        rep.add_exploration(hn, ex)
        tok.handle_cex(rep, hn, ex, replay_fn, ideal=True)
    for (sw, ch) in fm[:2]:
        for uc in (None, "mix", 0, -1):
            hn = "validator-wiring[sw=%d,ch=%d,uc=%r]" % (sw, ch, uc)
            ex = explore(wiring_harness(L, sw, ch, 10, uc), workers=1)
            rep.add_exploration(hn, ex)
            tok.handle_cex(rep, hn, ex, replay_fn)
