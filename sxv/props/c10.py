"""C10 - AudioReader framing: fixed-size blocks, overlap and max_read are exact.
B-shape: K consecutive read() calls on a fresh reader; source length n, block B, hop H and max_read M
(in samples) are unbounded symbolic integers; limiter / recorder / overlap on or off."""
import z3

from ..engine import explore, S, Unsupported
from ..values import SymBytes, SymInt, SymRat, slice_goal, toint, tobool
from ..stubs import iostub
from .. import loader
from . import byt, tok

I = z3.Int
BOUNDS = {"quick": dict(K=6), "thorough": dict(K=12)}


def expected_block(k, n_vis, B, H):
    """(exists, lo, hi) in samples for block k over visible data of n_vis samples"""
    if k == 0:
        exists = n_vis > 0
    else:
        exists = B + (k - 1) * H < n_vis
    lo = k * H
    hi = z3.If(lo + B < n_vis, lo + B, n_vis)
    return exists, lo, hi


def reader_harness(L, sw, ch, sr, K, overlap, limit, record, srckind="bytes", frac=False):
    bps = sw * ch
    util = L.modules["util"]
    iom = L.modules["io"]

    def path(e):
        D, data = byt.sym_audio(e, "D", bps)
        n = D.nsamples
        B, H, M = I("B"), I("H"), I("M")
        e.assume(B >= 1)
        syms = dict(n=n, B=B)
        kw = dict(block_dur=SymRat(B, sr), sr=sr, sw=sw, ch=ch)
        if overlap and frac:
            # durations with quarter-sample resolution: block = floor(Bq/4), hop = floor(Hq/4) samples, Hq < Bq (so the two may
            # floor to the same number of samples)
            Bq, Hq, br, hr = I("Bq"), I("Hq"), I("br"), I("hr")
            e.assume(z3.And(Bq == 4 * B + br, br >= 0, br < 4, Hq == 4 * H + hr, hr >= 0, hr < 4, H >= 1, Hq < Bq))
            kw["block_dur"] = SymRat(Bq, 4 * sr)
            kw["hop_dur"] = SymRat(Hq, 4 * sr)
            syms.update(H=H, Bq=Bq, Hq=Hq)
        elif overlap:
            e.assume(z3.And(H >= 1, H < B))
            kw["hop_dur"] = SymRat(H, sr)
            syms["H"] = H
        else:
            H = B
            if e.choose(2):
                kw["hop_dur"] = SymRat(B, sr)       # hop_dur == block_dur spelled out
        n_vis = n
        if limit:
            mr, M, Mq = byt.sym_max_read(e, sr)
            kw["max_read"] = mr
            syms["Mq"] = Mq
            n_vis = z3.If(M < n, M, n)
        if record:
            kw["record"] = True
        meta = dict(sw=sw, ch=ch, sr=sr, K=K, overlap=overlap, limit=limit, record=record, srckind=srckind, frac=frac)
        try:
            if srckind == "bytes":
                inp = data
            elif srckind == "source":
                inp = iom.BufferAudioSource(data, sr, sw, ch)
                for k_ in ("sr", "sw", "ch"):
                    kw.pop(k_)
            else:
                fs = iostub.FS()
                if srckind == "stdin":
                    inp = "-"
                elif srckind == "raw":
                    fs.files["f.raw"] = iostub.RawEntry(data)
                    inp = "f.raw"
                    kw["large_file"] = True
                else:
                    fs.files["f.wav"] = iostub.WavEntry(data, sr, sw, ch)
                    inp = "f.wav"
                    kw["large_file"] = True
                    for k_ in ("sr", "sw", "ch"):
                        kw.pop(k_)
                iostub.install(L, fs, stdin_data=data if srckind == "stdin" else None)
            r = util.AudioReader(inp, **kw)
            if srckind in ("bytes", "source") and e.choose(2):
                # an impatient caller: one read before open() (normally an error; whatever it does is not judged), then the
                # normal use, which must be unaffected
                meta["early"] = True
                try:
                    r.read()
                except Exception:
                    pass
            r.open()
        except Exception as ex:
            return now(e, "constructor raised %s: %s" % (type(ex).__name__, str(ex)[:60]), syms, meta)
        conds = {}
        try:
            conds["block_size"] = toint(r.block_size) == B
            conds["hop_size"] = toint(r.hop_size) == H
            conds["block_dur"] = SymRat.of(r.block_dur).eqz(SymRat(B, sr))
            conds["params"] = z3.And(tobool(r.sr == sr), tobool(r.sw == sw), tobool(r.ch == ch))
        except Exception as ex:
            return now(e, "attribute raised %s: %s" % (type(ex).__name__, str(ex)[:60]), syms, meta)
        blocks = []
        for k in range(K):
            try:
                blocks.append(r.read())
            except Exception as ex:
                return now(e, "read %d raised %s: %s" % (k, type(ex).__name__, str(ex)[:60]), syms, meta)
        for k, blk in enumerate(blocks):
            exists, lo, hi = expected_block(k, n_vis, B, H)
            if blk is None:
                conds[("block", k)] = z3.Not(exists)
            else:
                conds[("block", k)] = z3.And(exists, slice_goal(blk, D, lo * bps, hi * bps))
        return tok.discharge(e, conds, lambda m: mk(m, syms, meta))
    return path


def reject_harness(L, sr, case):
    util = L.modules["util"]
    exc = L.modules["exceptions"]

    def path(e):
        D, data = byt.sym_audio(e, "D", 2)
        p, h = I("p"), I("h")
        q = 1024
        want = None
        try:
            if case == "block shorter than a sample":
                e.assume(z3.And(p > 0, p * sr < q))
                util.AudioReader(data, block_dur=SymRat(p, q), sr=sr, sw=2, ch=1)
                got = "accepted"
            elif case == "block non-positive":
                e.assume(p <= 0)
                util.AudioReader(data, block_dur=SymRat(p, q), sr=sr, sw=2, ch=1)
                got = "accepted"
            else:
                e.assume(z3.And(p * sr >= q, h > p))
                util.AudioReader(data, block_dur=SymRat(p, q), hop_dur=SymRat(h, q), sr=sr, sw=2, ch=1)
                got = "accepted"
        except ValueError:
            got = "ValueError"
        except Exception as ex:
            got = "raised " + type(ex).__name__
        if got == "ValueError":
            return {"status": "ok", "outcome": "rejected"}
        m = e.model()
        return {"status": "cex", "failing": [case + ": " + got],
                "cex": {"kind": "reject", "case": case, "sr": sr, "p": byt.iv(m, p), "h": byt.iv(m, h), "q": q, "n": byt.iv(m, D.nsamples)}}
    return path


def fp_harness(L, sr, overlap):
    """K shape: the sizes the real constructors compute from *doubles*.  block_dur / hop_dur are bit-exact IEEE doubles,
    the product with the (concrete) rate is the correctly rounded one Python computes, and the claim is the statement's
    floor(block_dur*rate) read with Python's float semantics."""
    from ..fp import SymFP, F, RNE, fpv, fp_to_float
    util = L.modules["util"]

    def path(e):
        e.fresh_logic = "QF_FP"
        d, h = z3.FP("d", F), z3.FP("h", F)
        fin = [z3.Not(z3.fpIsNaN(x)) for x in (d, h)] + [z3.Not(z3.fpIsInf(x)) for x in (d, h)]
        e.add(z3.And(*fin, z3.fpGEQ(d, fpv(-1.0)), z3.fpLEQ(d, fpv(1000.0)), z3.fpGT(h, fpv(0.0)), z3.fpLEQ(h, fpv(1000.0))))
        pd, ph = z3.fpMul(RNE, d, fpv(float(sr))), z3.fpMul(RNE, h, fpv(float(sr)))
        fd, fh = z3.fpRoundToIntegral(z3.RTN(), pd), z3.fpRoundToIntegral(z3.RTN(), ph)
        kw = dict(block_dur=SymFP(d), sr=sr, sw=2, ch=1)
        if overlap:
            kw["hop_dur"] = SymFP(h)
        try:
            r = util.AudioReader(b"\0\0" * 4, **kw)
            bs, hs = r.block_size, r.hop_size
            outcome = "accepted"
        except ValueError:
            outcome = "ValueError"
        except Unsupported:
            # the size computation left the modelled FP fragment (e.g. round(x, n)): no verdict from the solver for this path.  What is still
            # done: z3 is asked for doubles at the places where roundings differ - the product duration*rate within 1e-9 below an integer,
            # and within 1e-9 above one - and the real code is run on them (the replay compares with floor(duration*rate)); a witness
            # that shows nothing is dropped, the path stays INCONCLUSIVE
            side = e.choose(2)
            frac_d, frac_h = z3.fpSub(RNE, pd, fd), z3.fpSub(RNE, ph, fh)
            near = (lambda fr: z3.fpGT(fr, fpv(1.0 - 1e-9))) if side == 0 else (lambda fr: z3.And(z3.fpLT(fr, fpv(1e-9)), z3.fpGT(fr, fpv(0.0))))
            e.add(z3.And(z3.fpGEQ(fd, fpv(2.0)), near(frac_d), z3.fpGEQ(fh, fpv(1.0)), z3.fpLT(h, d), near(frac_h) if overlap else z3.BoolVal(True)))
            m = e.model()
            if m is None:
                raise
            return {"status": "cex", "failing": ["probe: the size computation left the modelled fragment; boundary doubles chosen by z3 are tried on the real code"],
                    "cex": {"kind": "fp", "sr": sr, "overlap": overlap, "d": fp_to_float(m, d).hex(), "h": fp_to_float(m, h).hex()}}
        except Exception as ex:
            outcome = "raised %s: %s" % (type(ex).__name__, str(ex)[:80])
        # hop of less than one sample: outside the claim (assumption H >= 1)
        ante = z3.fpGEQ(ph, fpv(1.0)) if overlap else z3.BoolVal(True)
        if outcome == "accepted":
            goal = z3.And(z3.fpGT(d, fpv(0.0)), z3.fpGEQ(fd, fpv(1.0)), z3.fpEQ(fpv(bs), fd))
            if overlap:
                goal = z3.And(goal, z3.fpLEQ(h, d), z3.fpEQ(fpv(hs), z3.If(z3.fpEQ(h, d), fd, fh)))
        elif outcome == "ValueError":
            goal = z3.Or(z3.fpLEQ(d, fpv(0.0)), z3.fpLT(pd, fpv(1.0)))
            if overlap:
                goal = z3.Or(goal, z3.fpGT(h, d))
        else:
            goal = z3.BoolVal(False)
        res, m = e.refute(z3.Implies(ante, goal))
        if res == "unsat":
            return {"status": "ok", "outcome": outcome}
        if res == "sat":
            return {"status": "cex", "failing": ["%s: block/hop size is not floor(duration*rate) in double arithmetic" % outcome],
                    "cex": {"kind": "fp", "sr": sr, "overlap": overlap, "d": fp_to_float(m, d).hex(), "h": fp_to_float(m, h).hex()}}
        return {"status": "unknown", "why": "no verdict on the FP size lemma within the time-out"}
    return path


def now(e, why, syms, meta):
    m = e.model()
    if m is None:
        return {"status": "unknown", "why": why}
    return {"status": "cex", "failing": [why], "cex": mk(m, syms, meta)}


def mk(m, syms, meta):
    c = dict(meta)
    for k, t in syms.items():
        c[k] = byt.iv(m, t)
    return c


# ------------------------------------------------------------------ replay
def concrete_blocks(n_vis, B, H, K):
    out = []
    for k in range(K):
        exists = n_vis > 0 if k == 0 else B + (k - 1) * H < n_vis
        out.append((k * H, min(k * H + B, n_vis)) if exists else None)
    return out


def replay_fn(c):
    import os
    import shutil
    import tempfile
    import wave as _wave
    ak = loader.real_auditok()
    if c.get("kind") == "fp":
        import math
        d, h, sr = float.fromhex(c["d"]), float.fromhex(c["h"]), c["sr"]
        kw = dict(block_dur=d, sr=sr, sw=2, ch=1)
        if c["overlap"]:
            kw["hop_dur"] = h
        desc = "AudioReader(block_dur=%r%s, sr=%d)" % (d, ", hop_dur=%r" % h if c["overlap"] else "", sr)
        must_reject = d <= 0 or d * sr < 1 or (c["overlap"] and h > d)
        try:
            r = ak.AudioReader(b"\0\0" * 4, **kw)
        except ValueError as ex:
            return [] if must_reject else [("C10: a valid block_dur/hop_dur is rejected", desc + " raises %s" % type(ex).__name__)]
        if must_reject:
            return [("C10: block_dur shorter than one sample / hop longer than block is accepted", desc + " is accepted with block_size %s" % r.block_size)]
        out = []
        if r.block_size != math.floor(d * sr):
            out.append(("C10: block size is not floor(block_dur*rate)", desc + ": block_size %d, floor(%r) = %d" % (r.block_size, d * sr, math.floor(d * sr))))
        if c["overlap"] and h != d and r.hop_size != math.floor(h * sr):
            out.append(("C10: hop size is not floor(hop_dur*rate)", desc + ": hop_size %d, floor(%r) = %d" % (r.hop_size, h * sr, math.floor(h * sr))))
        return out
    if c.get("kind") == "reject":
        data = byt.concrete_bytes(c["n"] * 2)
        try:
            kw = dict(block_dur=c["p"] / c["q"], sr=c["sr"], sw=2, ch=1)
            if c["case"].startswith("hop"):
                kw["hop_dur"] = c["h"] / c["q"]
            ak.AudioReader(data, **kw)
            return [("C10: %s is accepted" % c["case"], "AudioReader(%d bytes, %s) is accepted" % (len(data), kw))]
        except ValueError:
            return []
        except Exception as ex:
            return [("C10: %s raises %s" % (c["case"], type(ex).__name__), str(ex))]
    sw, ch, sr, K = c["sw"], c["ch"], c["sr"], c["K"]
    bps = sw * ch
    n, B = c["n"], c["B"]
    H = c.get("H", B)
    data = byt.concrete_bytes(n * bps)
    kw = dict(block_dur=B / sr)
    if c["overlap"]:
        kw["hop_dur"] = H / sr
    if c.get("frac"):
        kw["block_dur"], kw["hop_dur"] = c["Bq"] / (4 * sr), c["Hq"] / (4 * sr)
        if int(kw["block_dur"] * sr) != B or int(kw["hop_dur"] * sr) != H or not kw["hop_dur"] < kw["block_dur"]:
            return []
    n_vis = n
    if c["limit"]:
        mrc = byt.max_read_concrete(c["Mq"], sr)
        if mrc is None:
            return []
        kw["max_read"] = mrc[0]
        n_vis = min(n, mrc[1])
    if c["record"]:
        kw["record"] = True
    # B/sr etc. must survive the float round trip, otherwise the run is outside the idealisation
    if not c.get("frac") and (int((B / sr) * sr) != B or (c["overlap"] and int((H / sr) * sr) != H)):
        return []
    desc = "AudioReader(%d samples sw=%d ch=%d sr=%d, block=%d hop=%s max_read=%s record=%s, input=%s)" % (
        n, sw, ch, sr, B, H if c["overlap"] else None, ("%s/4 samples" % c.get("Mq")) if c["limit"] else None, c["record"], c["srckind"])
    tmp = None
    try:
        if c["srckind"] == "bytes":
            r = ak.AudioReader(data, sr=sr, sw=sw, ch=ch, **kw)
        elif c["srckind"] == "source":
            from auditok import io as rio
            r = ak.AudioReader(rio.BufferAudioSource(data, sr, sw, ch), **kw)
        elif c["srckind"] == "stdin":
            import io as _io
            import sys as _sys

            class _Pipe(_io.BytesIO):
                def read1(self, k=-1):
                    return _io.BytesIO.read(self, 1 if k != 0 else 0)

            class _S:
                buffer = _Pipe(data)
            old_stdin = _sys.stdin
            _sys.stdin = _S()
            try:
                r = ak.AudioReader("-", sr=sr, sw=sw, ch=ch, **kw)
            finally:
                _sys.stdin = old_stdin
        else:
            tmp = tempfile.mkdtemp(prefix="sxv-c10-")
            if c["srckind"] == "raw":
                p = os.path.join(tmp, "f.raw")
                open(p, "wb").write(data)
                r = ak.AudioReader(p, sr=sr, sw=sw, ch=ch, large_file=True, **kw)
            else:
                p = os.path.join(tmp, "f.wav")
                with _wave.open(p, "wb") as w:
                    w.setframerate(sr)
                    w.setsampwidth(sw)
                    w.setnchannels(ch)
                    w.writeframes(data)
                r = ak.AudioReader(p, large_file=True, **kw)
        if c.get("early"):
            desc += ", one read() before open()"
            try:
                r.read()
            except Exception:
                pass
        r.open()
        if (r.block_size, r.hop_size) != (B, H):
            return [("C10: block_size/hop_size attributes wrong", desc + ": block_size=%s hop_size=%s" % (r.block_size, r.hop_size))]
        want = concrete_blocks(n_vis, B, H, K)
        for k in range(K):
            try:
                blk = r.read()
            except Exception as ex:
                cls = "C10: overlapping reader over empty visible data raises %s instead of returning None" % type(ex).__name__ \
                    if (c["overlap"] and n_vis == 0) else "C10: read raises %s" % type(ex).__name__
                return [(cls, desc + ": read #%d raises %s: %s" % (k, type(ex).__name__, ex))]
            w = None if want[k] is None else data[want[k][0] * bps:want[k][1] * bps]
            if blk != w:
                return [("C10: block differs from the expected framing", desc + ": read #%d returns %s, expected %s" % (
                    k, None if blk is None else "%d bytes" % len(blk), None if w is None else "samples [%d,%d)" % want[k]))]
        return []
    except Exception as ex:
        return [("C10: reader raises %s" % type(ex).__name__, desc + ": %s" % ex)]
    finally:
        if tmp:
            shutil.rmtree(tmp, ignore_errors=True)


def replay(c):
    f = replay_fn(c)
    return (bool(f), f[0][1] if f else "property holds on the real code for this input")


def run(rep):
    tok.VALIDATE[0] = replay_fn
    b = BOUNDS[rep.tier]
    L = loader.load(("exceptions", "io", "signal", "util"))
    rep.hashes = L.hashes
    tier = rep.tier
    K = b["K"]
    rep.bounds = {"reads": "%d consecutive read() calls from a fresh reader (incl. calls past the end)" % K,
                  "symbolic": "source length n, block size B, hop H < B, max_read = Mq/4 samples with Mq an unbounded integer (quarter-sample resolution, so rounding ties and fractions are covered)",
                  "enumerated": "overlap x limiter x recorder on/off; input kinds bytes, AudioSource object%s; formats %s" % (
                      ", raw file, wav file (lazy)" , byt.fmts(tier)[:3])}
    rep.explanation = ("Real AudioReader/_FixedSizeAudioReader/_OverlapAudioReader/_Limiter/_Recorder over an uninterpreted byte sequence; "
                       "z3 proves block k == V[k*H : min(k*H+B,|V|)] and the exact block-existence condition for all n, B, H, M.")
    rep.assumptions = ["framing harnesses: block_dur = B/rate, hop_dur = H/rate, max_read = Mq/(4*rate) as exact rationals; the sizes computed from doubles are the subject of the fp-sizes lemma (block_dur, hop_dur any double in (-1, 1000], rates listed there)",
                       "H >= 1 (hop of at least one sample)", "I/O stubs for file inputs"]
    rep.outside = ["more than %d reads" % K, "pydub formats, microphone"]
    fm = byt.fmts(tier)[:2] if tier == "quick" else byt.fmts(tier)[:4]
    for (sw, ch) in fm:
        for overlap in (False, True):
            for limit in (False, True):
                for record in (False, True):
                    if tier == "quick" and (sw, ch) != fm[0] and record:
                        continue
                    hn = "reader[sw=%d,ch=%d,K=%d,%s%s%s]" % (sw, ch, K, "overlap," if overlap else "", "limit," if limit else "", "record" if record else "")
                    ex = explore(reader_harness(L, sw, ch, 10, K, overlap, limit, record))
                    rep.add_exploration(hn, ex)
                    tok.handle_cex(rep, hn, ex, replay_fn, ideal=True)
    for limit in (False, True):
        hn = "reader[fractional block/hop,K=%d,%s]" % (min(K, 6), "limit" if limit else "")
        ex = explore(reader_harness(L, 2, 1, 10, min(K, 6), True, limit, False, "bytes", frac=True))
        rep.add_exploration(hn, ex)
        tok.handle_cex(rep, hn, ex, replay_fn, ideal=True)
    for srckind in ("source", "raw", "wav", "stdin"):
        for overlap in (False, True):
            hn = "reader[%s,K=%d,%slimit]" % (srckind, min(K, 6), "overlap," if overlap else "")
            ex = explore(reader_harness(L, 2, 1, 10, min(K, 6), overlap, True, False, srckind))
            rep.add_exploration(hn, ex)
            tok.handle_cex(rep, hn, ex, replay_fn, ideal=True)
    for case in ("block shorter than a sample", "block non-positive", "hop longer than block"):
        for sr_ in (16000, 10):      # at 10 Hz a longer hop can truncate to the same number of samples as the block
            ex = explore(reject_harness(L, sr_, case), workers=1)
            rep.add_exploration("reject[%s,sr=%d]" % (case, sr_), ex)
            tok.handle_cex(rep, "reject[%s]" % case, ex, replay_fn)
    for sr_ in (10, 100, 8000, 16000, 44100):
        for overlap in (False, True):
            hn = "fp-sizes[sr=%d,%s]" % (sr_, "overlap" if overlap else "no overlap")
            ex = explore(fp_harness(L, sr_, overlap), workers=4, timeout_ms=120000, path_wall_s=600)
            rep.add_exploration(hn, ex)
            tok.handle_cex(rep, hn, ex, replay_fn)
    rep.witness("rejection paths reached", True)
