import sys, time, z3
sys.path.insert(0, '/repo')
import numpy as real_np
# --- shim ---
R = z3.RealSort()
S = z3.Function('sqrt', R, R); L = z3.Function('log10', R, R); SQ = z3.Function('sq', R, R)
calls = {'sqrt': [], 'log10': []}
class Arr:
    def __init__(self, shape, flat): self.shape = tuple(shape); self.flat = list(flat)
    def astype(self, dt): return Arr(self.shape, [z3.ToReal(x) if x.sort() == z3.IntSort() else x for x in self.flat]) if dt is np.float64 else self
    def reshape(self, *shape, order='C'):
        n = len(self.flat)
        shape = list(shape)
        if -1 in shape:
            k = 1
            for s in shape:
                if s != -1: k *= s
            shape[shape.index(-1)] = n // k
        assert len(shape) == 2 and len(self.shape) == 1
        r, c = shape
        if order == 'F':   # element [i][j] = flat[i + j*r]
            flat = [self.flat[i + j * r] for i in range(r) for j in range(c)]
        else:
            flat = list(self.flat)
        return Arr((r, c), flat)
    def __pow__(self, k):
        assert k == 2
        return Arr(self.shape, [SQ(x) for x in self.flat])
    def __rmul__(self, k): return Arr(self.shape, [k * x for x in self.flat])
    def __getitem__(self, i):
        assert len(self.shape) == 2
        r, c = self.shape
        if i < 0: i += r
        return Arr((c,), self.flat[i * c:(i + 1) * c])
    def mean(self, axis=None):
        if len(self.shape) == 1:
            assert axis in (-1, 0, None)
            return Arr((), [z3.Sum(self.flat) / len(self.flat)])
        r, c = self.shape
        if axis in (-1, 1): return Arr((r,), [z3.Sum(self.flat[i * c:(i + 1) * c]) / c for i in range(r)])
        if axis == 0: return Arr((c,), [z3.Sum([self.flat[i * c + j] for i in range(r)]) / r for j in range(c)])
    def __ge__(self, thr):
        assert len(self.flat) == 1, self.shape
        return self.flat[0] >= thr
class NP:
    int8, int16, int32, float64 = 'i1', 'i2', 'i4', 'f8'
    @staticmethod
    def frombuffer(data, dtype):
        w = {'i1': 1, 'i2': 2, 'i4': 4}[dtype]
        out = []
        for k in range(0, len(data), w):
            bv = z3.Concat(*reversed(data[k:k + w])) if w > 1 else data[k]
            out.append(z3.BV2Int(bv, is_signed=True))
        return Arr((len(out),), out)
    @staticmethod
    def array(x): return x
    @staticmethod
    def mean(x, axis=None): return x.mean(axis)
    @staticmethod
    def sqrt(x):
        calls['sqrt'] += x.flat; return Arr(x.shape, [S(v) for v in x.flat])
    @staticmethod
    def clip(x, a_min=None, a_max=None): return Arr(x.shape, [z3.If(v < a_min, z3.RealVal(a_min), v) for v in x.flat])
    @staticmethod
    def log10(x):
        calls['log10'] += x.flat; return Arr(x.shape, [L(v) for v in x.flat])
    @staticmethod
    def max(x):
        m = x.flat[0]
        for v in x.flat[1:]: m = z3.If(v > m, v, m)
        return Arr((), [m])
np = NP
import auditok.signal as sig, auditok.util as util
sig.np = NP; util.np = NP
sig.SAMPLE_WIDTH_TO_DTYPE = {1: NP.int8, 2: NP.int16, 4: NP.int32}   # table re-read from source in the real thing

def check(sw, ch, n, uc):
    for k in calls: calls[k] = []
    data = [z3.BitVec('b%d' % i, 8) for i in range(sw * ch * n)]
    thr = z3.Real('thr')
    v = util.AudioEnergyValidator(thr, sw, ch, use_channel=uc)
    dec = v.is_valid(data)
    # spec
    def sample(i, c):
        k = (i * ch + c) * sw
        bs = data[k:k + sw]
        return z3.ToReal(z3.BV2Int(z3.Concat(*reversed(bs)) if sw > 1 else bs[0], True))
    def E(xs):
        m = z3.Sum([SQ(x) for x in xs]) / len(xs)
        return 10 * L(z3.If(m < z3.RealVal('1e-20'), z3.RealVal('1e-20'), m)), m
    ax = []
    if ch == 1 or uc in (None, 'any'):
        es = [E([sample(i, c) for i in range(n)]) for c in range(ch)]
        spec = z3.Or(*[e >= thr for e, _ in es]); ms = [m for _, m in es]
    elif uc in ('mix', 'avg', 'average'):
        e, m = E([z3.Sum([sample(i, c) for c in range(ch)]) / ch for i in range(n)]); spec = e >= thr; ms = [m]
    else:
        c = uc if uc >= 0 else uc + ch
        e, m = E([sample(i, c) for i in range(n)]); spec = e >= thr; ms = [m]
    # axioms instantiated on recorded terms
    for a in calls['sqrt']:
        ax += [S(a) >= 0, a >= 0]
        ax += [z3.Implies(a > 0, 2 * L(S(a)) == L(a))]
        ax += [(S(a) < z3.RealVal('1e-10')) == (a < z3.RealVal('1e-20'))]
    ax += [2 * L(z3.RealVal('1e-10')) == L(z3.RealVal('1e-20'))]
    s = z3.Solver(); s.set('timeout', 120000)
    s.add(*ax); s.add(dec != spec)
    t = time.time(); r = s.check()
    print(sw, ch, n, uc, r, f"{time.time()-t:.2f}s")
    if r == z3.sat: print(s.model())

import itertools
for sw, ch, n, uc in itertools.product((1, 2, 4), (1, 2, 3), (1, 3), (None, 'mix', 'average', 0, -1)):
    check(sw, ch, n, uc)
