import z3, time, sys
F = z3.Float64(); RNE = z3.RNE()
d, w = z3.FP('d', F), z3.FP('w', F)
def V(x): return z3.FPVal(x, F)
q = z3.fpDiv(RNE, d, w)
eps = V(1e-10)
code_floor = z3.fpRoundToIntegral(z3.RTN(), z3.fpAdd(RNE, q, eps))
code_ceil_buggy = z3.fpRoundToIntegral(z3.RTP(), q)
code_ceil_fixed = z3.fpRoundToIntegral(z3.RTP(), z3.fpSub(RNE, q, eps))
r = z3.fpRoundToIntegral(RNE, q)
dist = z3.fpAbs(z3.fpSub(RNE, q, r))
pre = z3.And(z3.fpGT(d, V(0.0)), z3.fpGT(w, V(0.0)), z3.fpLEQ(q, V(1e5)), z3.fpGEQ(w, V(1e-6)), z3.fpLEQ(d, V(1e6)))
def spec(code, exact_mode):
    exact = z3.fpRoundToIntegral(exact_mode, q)
    return z3.And(z3.Implies(z3.fpLEQ(dist, V(5e-11)), z3.fpEQ(code, r)),
                  z3.Implies(z3.fpGT(dist, V(1.1e-9)), z3.fpEQ(code, exact)))
for name, code, mode in (('floor', code_floor, z3.RTN()), ('ceil_buggy', code_ceil_buggy, z3.RTP()), ('ceil_fixed', code_ceil_fixed, z3.RTP())):
    s = z3.Solver(); s.set('timeout', 600000)
    s.add(pre, z3.Not(spec(code, mode)))
    t = time.time(); res = s.check(); 
    print(name, res, f"{time.time()-t:.1f}s")
    if res == z3.sat:
        m = s.model(); print(' d=', m[d], ' w=', m[w])
    open(f'/tmp/probe/fp_{name}.smt2','w').write("(set-logic QF_FP)\n" + s.to_smt2())
