import z3, time, sys, subprocess, math
F = z3.Float64(); RNE = z3.RNE()
def V(x): return z3.FPVal(x, F)
X = z3.FP('X', F)
q = z3.fpDiv(RNE, X, V(1000.0)); t = z3.fpRoundToIntegral(z3.RTZ(), q)
rem = z3.fpSub(RNE, X, z3.fpMul(RNE, t, V(1000.0)))
for hi in (2.0**20, 2.0**45):
    pre = z3.And(z3.fpEQ(X, z3.fpRoundToIntegral(RNE, X)), z3.fpGEQ(X, V(0.0)), z3.fpLEQ(X, V(hi)))
    s = z3.Solver(); s.add(pre, z3.Not(z3.And(z3.fpGEQ(rem, V(0.0)), z3.fpLT(rem, V(1000.0)))))
    open('fp6_%d.smt2' % int(math.log2(hi)) if False else 'fp6_%g.smt2' % hi, 'w').write('(set-logic QF_FP)\n' + s.to_smt2())
    import cvc5
    from cvc5 import Kind
    slv = cvc5.Solver(); slv.setOption('tlimit', '400000'); 
    import cvc5.pythonic as cp
    t0 = time.time()
    r = subprocess.run([sys.executable, '-c', f"""
import cvc5
from cvc5 import InputParser, SymbolManager
s = cvc5.Solver(); s.setOption('tlimit-per','400000')
sm = SymbolManager(s); p = InputParser(s, sm)
p.setFileInput(cvc5.InputLanguage.SMT_LIB_2_6, 'fp6_{hi:g}.smt2')
while True:
    c = p.nextCommand()
    if c.isNull(): break
    out = c.invoke(s, sm)
    if str(out).strip(): print(str(out).strip())
"""], capture_output=True, text=True, timeout=500)
    print('cvc5 hi', hi, r.stdout.strip()[-40:], r.stderr.strip()[-200:], f"{time.time()-t0:.1f}s"); sys.stdout.flush()
