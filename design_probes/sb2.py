"""SymBytes as segment lists with LIA lengths; z3 Seq only in final obligations."""
import ast, sys, types, builtins, z3, math, os
from eng import *
import eng
B8 = z3.BitVecSort(8); SEQ = z3.SeqSort(B8)
def S(x): return z3.simplify(x)
class Base:
    def __init__(self, name, n): self.seq = z3.Const(name, SEQ); self.n = n   # n: LIA term (bytes)
class SymBytes:
    # segs: list of ('b', base, lo, hi) with 0<=lo<hi<=base.n guaranteed by construction (non-empty), or ('c', bytes)
    def __init__(self, segs):
        out = []
        for g in segs:
            if out and g[0] == 'b' and out[-1][0] == 'b' and out[-1][1] is g[1] and z3.is_int_value(S(out[-1][3] - g[2])) and S(out[-1][3] - g[2]).as_long() == 0:
                out[-1] = ('b', g[1], out[-1][2], g[3])
            else: out.append(g)
        self.segs = out
    @staticmethod
    def whole(base):
        # may be empty: caller must ensure branch on emptiness
        return SymBytes([('b', base, z3.IntVal(0), base.n)]) if Engine.cur.branch(base.n > 0) else SymBytes([])
    def length(self):
        t = z3.IntVal(0)
        for s in self.segs: t = t + (len(s[1]) if s[0] == 'c' else s[3] - s[2])
        return S(t)
    def __bool__(self): return len(self.segs) > 0
    def __getitem__(self, sl):
        assert isinstance(sl, slice) and sl.step is None
        br = Engine.cur.branch; n = self.length()
        def norm(x, default):
            if x is None: return default
            x = S(toint(x))
            if br(x < 0): return z3.IntVal(0) if br(x + n < 0) else S(x + n)
            return n if br(x > n) else x
        lo = norm(sl.start, z3.IntVal(0)); hi = norm(sl.stop, n)
        if not br(hi > lo): return SymBytes([])
        out = []; off = z3.IntVal(0)
        for s in self.segs:
            ln = z3.IntVal(len(s[1])) if s[0] == 'c' else S(s[3] - s[2])
            a, b = off, S(off + ln)     # this seg covers [a,b)
            off = b
            # intersection with [lo,hi)
            if br(hi <= a): break
            if br(lo >= b): continue
            l2 = lo if br(lo > a) else a
            h2 = hi if br(hi < b) else b
            if s[0] == 'c':
                raise Unsupported('slice of literal')
            out.append(('b', s[1], S(s[2] + (l2 - a)), S(s[2] + (h2 - a))))
        return SymBytes(out)
    def __add__(self, o): return SymBytes(self.segs + lift(o).segs)
    def __radd__(self, o): return SymBytes(lift(o).segs + self.segs)
    def join(self, it):
        out = []
        for i, p in enumerate(it):
            if i: out += self.segs
            out += lift(p).segs
        return SymBytes(out)
    def term(self):
        ts = [tobytes_c(s[1]) if s[0] == 'c' else z3.Extract(s[1].seq, s[2], S(s[3] - s[2])) for s in self.segs]
        if not ts: return z3.Empty(SEQ)
        return z3.Concat(*ts) if len(ts) > 1 else ts[0]
    __hash__ = None
class Unsupported(BaseException): pass
def tobytes_c(x):
    us = [z3.Unit(z3.BitVecVal(b, 8)) for b in x]
    return z3.Concat(*us) if len(us) > 1 else us[0]
def lift(x):
    if isinstance(x, SymBytes): return x
    if isinstance(x, (bytes, bytearray)): return SymBytes([('c', bytes(x))] if len(x) else [])
    raise TypeError(type(x))

class SymRat:
    def __init__(self, num, den=1): self.num = num; self.den = den
    @staticmethod
    def of(x):
        if isinstance(x, SymRat): return x
        if isinstance(x, SymInt): return SymRat(x.t, 1)
        if isinstance(x, int): return SymRat(z3.IntVal(int(x)), 1)
        if isinstance(x, float):
            a, b = x.as_integer_ratio(); return SymRat(z3.IntVal(a), b)
        raise TypeError(type(x))
    def __mul__(self, o):
        if isinstance(o, int) and not isinstance(o, bool):
            g = math.gcd(o, self.den); return SymRat(S(self.num * (o // g)), self.den // g)
        o = SymRat.of(o); return SymRat(S(self.num * o.num), self.den * o.den)
    __rmul__ = __mul__
    def __add__(self, o):
        o = SymRat.of(o); l = self.den * o.den // math.gcd(self.den, o.den)
        return SymRat(S(self.num * (l // self.den) + o.num * (l // o.den)), l)
    __radd__ = __add__
    def __sub__(self, o): o = SymRat.of(o); return self + SymRat(-o.num, o.den)
    def __truediv__(self, o):
        assert isinstance(o, int) and o > 0; return SymRat(self.num, self.den * o)
    def _cmp(op):
        def f(self, o):
            if o is None: return NotImplemented
            o = SymRat.of(o); return SymBool(op(self.num * o.den, o.num * self.den))
        return f
    __lt__ = _cmp(lambda a, b: a < b); __le__ = _cmp(lambda a, b: a <= b)
    __gt__ = _cmp(lambda a, b: a > b); __ge__ = _cmp(lambda a, b: a >= b)
    def __eq__(self, o):
        if o is None or not isinstance(o, (int, float, SymInt, SymRat)): return False
        return SymBool(self.eqz(o))
    __hash__ = None
    def __format__(self, s): return '<rat>'
    def __round__(self, nd=None):
        if self.den == 1: return SymInt(self.num)
        q = self.num / self.den; r = self.num % self.den
        return SymInt(S(z3.If(2 * r < self.den, q, z3.If(2 * r > self.den, q + 1, z3.If(q % 2 == 0, q, q + 1)))))
    def eqz(self, o): o = SymRat.of(o); return self.num * o.den == o.num * self.den
SymInt.__truediv__ = lambda s, o: SymRat(s.t, o) if isinstance(o, int) and o > 0 else NotImplemented
SymInt.__floordiv__ = lambda s, o: SymInt(S(s.t / o)) if isinstance(o, int) and o > 0 else NotImplemented

def sx_len(x):
    if isinstance(x, SymBytes): return SymInt(x.length())
    if isinstance(x, (list, tuple, dict, str, bytes, bytearray, set, frozenset, range)): return builtins.len(x)
    return type(x).__len__(x)
def sx_int(x):
    if isinstance(x, SymInt): return x
    if isinstance(x, SymRat): return SymInt(S(x.num / x.den)) if x.den != 1 else SymInt(x.num)
    return builtins.int(x)
def sx_isinstance(x, T):
    Ts = T if isinstance(T, tuple) else (T,)
    if isinstance(x, SymInt): return int in Ts
    if isinstance(x, SymRat): return float in Ts
    if isinstance(x, SymBytes): return bytes in Ts
    return builtins.isinstance(x, T)
def sx_bytes(x=b''):
    if isinstance(x, SymBytes): return x
    if hasattr(type(x), '__bytes__'): return type(x).__bytes__(x)
    return builtins.bytes(x)
def sx_min(*a):
    if len(a) == 2 and any(isinstance(v, SymInt) for v in a):
        return a[0] if (a[0] <= a[1]) else a[1]
    return builtins.min(*a)
def sx_join(recv, it):
    if isinstance(recv, (bytes, bytearray)):
        it = list(it)
        return lift(recv).join(it)
    return recv.join(it)
SHIMS = {'len': sx_len, 'int': sx_int, 'isinstance': sx_isinstance, 'bytes': sx_bytes, 'min': sx_min}
class T(ast.NodeTransformer):
    def visit_Call(self, node):
        self.generic_visit(node)
        if isinstance(node.func, ast.Name) and node.func.id in SHIMS:
            node.func = ast.copy_location(ast.Name(id='__sx_%s__' % node.func.id, ctx=ast.Load()), node.func)
            return node
        if isinstance(node.func, ast.Attribute) and node.func.attr == 'join' and len(node.args) == 1:
            return ast.copy_location(ast.Call(func=ast.Name(id='__sx_join__', ctx=ast.Load()), args=[node.func.value, node.args[0]], keywords=[]), node)
        return node
def load_pkg(names, root='/repo'):
    pkg = types.ModuleType('sxauditok'); pkg.__path__ = []; pkg.__package__ = 'sxauditok'
    sys.modules['sxauditok'] = pkg
    for n in names:
        path = os.path.join(root, 'auditok', n + '.py')
        tree = T().visit(ast.parse(open(path).read(), path)); ast.fix_missing_locations(tree)
        m = types.ModuleType('sxauditok.' + n); m.__package__ = 'sxauditok'; m.__file__ = path
        m.__dict__['__sx_join__'] = sx_join
        for k, f in SHIMS.items(): m.__dict__['__sx_%s__' % k] = f
        sys.modules['sxauditok.' + n] = m; setattr(pkg, n, m)
        exec(compile(tree, path, 'exec'), m.__dict__)
    return pkg

def lia_normalise(e, segs):
    """merge neighbouring segments of the same base when the path condition entails hi == next.lo"""
    out = []
    for g in segs:
        if out and g[0] == 'b' and out[-1][0] == 'b' and out[-1][1] is g[1] and e.check(out[-1][3] != g[2]) == z3.unsat:
            out[-1] = ('b', g[1], out[-1][2], g[3])
        else: out.append(g)
    return out
def lia_equal_slice(e, val, base, lo, hi):
    """does PC entail  val == base[lo:hi]  (hi>lo) ?  returns 'unsat' (entailed) / 'sat' / 'unknown' like a refutation query"""
    segs = lia_normalise(e, val.segs)
    if len(segs) != 1 or segs[0][0] != 'b' or segs[0][1] is not base: return 'structural'
    return str(e.check(z3.Not(z3.And(segs[0][2] == lo, segs[0][3] == hi))))
