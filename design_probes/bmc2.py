import sys, time, z3
sys.path.insert(0, '/repo'); sys.path.insert(0, '/tmp/probe')
from eng import *
from bmc1 import Frame, Src
from auditok.core import StreamTokenizer

def run(N, mode, with_init=False):
    def path(e):
        v = [SymBool(z3.Bool('v%d' % i)) for i in range(N)]
        mn, mx, ms = (SymInt(z3.Int(n)) for n in ('min_len', 'max_len', 'mcs'))
        e.assume((mn >= 1) & (mn <= mx) & (ms >= 0) & (ms < mx))
        kw = {}
        if with_init:
            im, ims = SymInt(z3.Int('init_min')), SymInt(z3.Int('init_max_sil'))
            e.assume((im >= 0) & (im < mx) & (ims >= 0))
            kw = dict(init_min=im, init_max_silence=ims)
        frames = [Frame(i, v[i]) for i in range(N)]
        tk = StreamTokenizer(lambda f: f.valid, mn, mx, ms, mode=mode, **kw)
        toks = tk.tokenize(Src(frames))
        conds = []
        prev = None
        for data, s, en in toks:
            L = len(data)
            conds.append(toint(mx) >= L)
            short = toint(mn) > L
            if mode & 2:
                conds.append(z3.Not(short))
            else:
                if prev is None:
                    conds.append(z3.Not(short))
                else:
                    pd, ps, pe = prev
                    adj = z3.And(toint(pe) + 1 == toint(s), len(pd) == toint(mx))
                    conds.append(z3.Implies(short, adj))
            prev = (data, s, en)
        bad = z3.Not(z3.And(*conds)) if conds else z3.BoolVal(False)
        r = e.check(bad)
        if r == z3.sat:
            m = e.solver.model()
            return ('CEX', str(m), [(len(d), s, en) for d, s, en in toks])
        return ('ok', len(toks))
    e = Engine()
    t = time.time()
    res = e.explore(path)
    cex = [r for _, r, _ in res if r[0] == 'CEX']
    print(f"N={N} mode={mode} init={with_init} paths={e.paths} queries={e.queries} solver_s={e.solver_s:.2f} wall={time.time()-t:.2f} cex={len(cex)}")
    if cex: print(cex[0])

if __name__ == '__main__':
    run(6, 0); run(6, 2); run(6, 0, True)
