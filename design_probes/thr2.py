import sys, time, z3, types, ast, importlib
ROOT = '/repo'
sys.path.insert(0, ROOT); sys.path.insert(0, '/tmp/probe')
from eng import *
import coop
from coop import *
class WaveW:
    files = {}
    def __init__(self, name): self.name = name; self.frames = []; self.closed = False; self.params = {}; WaveW.files[name] = self
    def setframerate(self, v): self.params['sr'] = v
    def setsampwidth(self, v): self.params['sw'] = v
    def setnchannels(self, v): self.params['ch'] = v
    def writeframes(self, d):
        assert not self.closed, "write after close"
        self.frames.append(d)
    def close(self): self.closed = True
fw = types.ModuleType('sx_wave'); fw.open = lambda name, mode='rb': WaveW(name)
ft = types.ModuleType('sx_threading'); ft.Thread = CoopThread
fq = types.ModuleType('sx_queue'); fq.Queue = CoopQueue; fq.Empty = Empty
sys.modules.update({'sx_threading': ft, 'sx_queue': fq, 'sx_wave': fw})
class T(ast.NodeTransformer):
    def visit_ImportFrom(self, n):
        if n.module in ('threading', 'queue') and n.level == 0: n.module = 'sx_' + n.module
        return n
    def visit_Import(self, n):
        for a in n.names:
            if a.name == 'wave': a.name = 'sx_wave'; a.asname = 'wave'
        return n
def load(modname, path):
    tree = T().visit(ast.parse(open(path).read(), path)); ast.fix_missing_locations(tree)
    real = importlib.import_module(modname)
    m = types.ModuleType(modname); m.__dict__.update({'__package__': real.__package__, '__file__': path})
    exec(compile(tree, path, 'exec'), m.__dict__); return m
W = load('auditok.workers', ROOT + '/auditok/workers.py')
W.AudioDataSaverWorker.__del__ = lambda self: None
from auditok.util import AudioReader
NF = int(sys.argv[1]) if len(sys.argv) > 1 else 3
P = int(sys.argv[2]) if len(sys.argv) > 2 else 2
data = bytes((i % 251) for i in range(NF * 2))
def path(e):
    s = Sched(e, max_timeouts=1); s.max_preempt = P
    v = {i: SymBool(z3.Bool('v%d' % i)) for i in range(NF)}
    def validator(frame): return v[frame[0] // 2]
    cache = z3.Int('cache_bytes'); e.solver.add(cache >= 0)
    try:
        reader = AudioReader(data, block_dur=0.1, sr=10, sw=2, ch=1)
        saver = W.StreamSaverWorker(reader, 'out.wav', cache_size_sec=0.5)
        saver._cache_size = SymInt(cache)
        saver.start()
        tw = W.TokenizerWorker(saver, [], validator=validator, min_dur=0.1, max_dur=0.3, max_silence=0.1)
        s.private.add(id(tw._inbox))
        tw.start_all()
        tw.join(); saver.join()
        f = WaveW.files['out.wav']
        res = ('done', b''.join(f.frames), f.closed, dict(f.params))
    except Killed:
        res = s.outcome
    finally:
        s.cleanup()
    if res and res[0] == 'done':
        ok = res[1] == data and res[2] and res[3] == {'sr': 10, 'sw': 2, 'ch': 1}
        return ('ok' if ok else 'BAD', res, s.log)
    return ('BAD', res, s.log)
e = Engine(); t = time.time()
res = e.explore(path)
bad = [r for _, r, _ in res if r[0] != 'ok']
print(f"NF={NF} P={P} paths={e.paths} queries={e.queries} solver_s={e.solver_s:.2f} wall={time.time()-t:.2f} bad={len(bad)} threads_alive={threading.active_count()}")
for b in bad[:3]: print(str(b)[:500])
