from typing import List, Tuple
from auditok.core import StreamTokenizer

class Src:
    def __init__(self, frames):
        self.frames = frames
        self.i = 0
    def read(self):
        if self.i >= len(self.frames):
            return None
        f = self.frames[self.i]
        self.i += 1
        return f

def c01(valid: List[bool], min_length: int, max_length: int, mcs: int, mode: int) -> bool:
    """
    pre: len(valid) <= 6
    pre: 1 <= min_length <= max_length <= 7
    pre: 0 <= mcs < max_length
    pre: mode in (0, 2, 4, 6)
    post: _
    """
    frames = [(i, v) for i, v in enumerate(valid)]
    tk = StreamTokenizer(lambda f: f[1], min_length, max_length, mcs, mode=mode)
    toks = tk.tokenize(Src(frames))
    prev_end = -1
    for data, s, e in toks:
        if not (0 <= s <= e < len(frames)):
            return False
        if s <= prev_end:
            return False
        if e - s + 1 != len(data):
            return False
        if len(data) > max_length:
            return False
        for k, fr in enumerate(data):
            if fr[0] != s + k:
                return False
        prev_end = e
    return True
