import z3, time
B8 = z3.BitVecSort(8); S = z3.SeqSort(B8)
D = z3.Const('D', S); n, B, H = z3.Ints('n B H')
L = z3.Length
def ext(s, lo, hi):  # python slice with 0<=lo, hi possibly > len
    ln = L(s)
    lo2 = z3.If(lo > ln, ln, lo); hi2 = z3.If(hi > ln, ln, hi)
    return z3.Extract(s, lo2, z3.If(hi2 > lo2, hi2 - lo2, 0))
def t(name, *fs, expect=z3.unsat):
    s = z3.Solver(); s.set('timeout', 60000); s.add(*fs); t0 = time.time(); r = s.check()
    print(name, r, f"{time.time()-t0:.2f}s")
# 1. three fixed-size reads concatenate to D when 2B < n <= 3B (bps=2)
pre = [L(D) == 2 * n, n >= 0, B >= 1]
b0 = ext(D, 0, 2 * B); b1 = ext(D, 2 * B, 4 * B); b2 = ext(D, 4 * B, 6 * B)
t('concat3', *pre, 2 * B < n, n <= 3 * B, z3.Concat(b0, b1, b2) != D)
t('blocklen', *pre, 2 * B < n, n <= 3 * B, z3.Or(L(b0) != 2 * B, L(b1) != 2 * B, L(b2) != 2 * (n - 2 * B)))
# 2. overlap: block1 = cache + read(hop) where cache = b0[hop:], equals D[hop: hop+B]
c0 = ext(b0, 2 * H, 2 * B + 5)  # block[hop_bytes:]
r1 = ext(D, 2 * B, 2 * B + 2 * H)
blk1 = z3.Concat(c0, r1)
t('overlap1', *pre, H >= 1, H < B, n >= B + H, blk1 != ext(D, 2 * H, 2 * H + 2 * B))
t('overlap1_short', *pre, H >= 1, H < B, n >= B, blk1 != ext(D, 2 * H, 2 * H + 2 * B))
# 3. joined silence
Z = z3.Const('Z', S); E1 = z3.Const('E1', S); E2 = z3.Const('E2', S)
t('join', z3.Concat(E1, Z, E2) != z3.Concat(z3.Concat(E1, Z), E2))
# 4. sanity sat
t('sat', *pre, n == 3, B == 1, z3.Concat(b0, b1) == D)
