import sys, time, z3
ROOT = sys.argv[1] if len(sys.argv) > 1 else '/repo'
sys.path.insert(0, ROOT); sys.path.insert(0, '/tmp/probe')
from eng import *
import symload
from symload import *
core = load('auditok.core', ROOT + '/auditok/core.py')
ST = core.StreamTokenizer
I = z3.Int
class Frame:
    def __init__(self, pos, valid): self.pos = pos; self.valid = valid
# ghost-aware list: pos array P, valid array V
def Rdef(R, V, carry, i):   # definitional constraint of run array at index i
    prev = z3.If(i == 0, carry, R[i - 1])
    return R[i] == z3.If(V[i], 0, prev + 1)

def inv(s, j):
    st, L, sil, start, cur, contig, P, V, R, carry, mx, ms, last_end, prev_cut = (s[k] for k in 'st L sil start cur contig P V R carry mx ms last_end prev_cut'.split())
    inr = lambda i: z3.And(0 <= i, i < L)
    return z3.And(
        L >= 0, st >= 0, st <= 3, st != 2, sil >= 0, carry >= 0, carry <= ms,
        z3.Implies(st == 0, L == 0),
        z3.Implies(st != 0, z3.And(start + L == cur + 1, start >= 0, last_end < start, L < mx)),
        last_end <= cur, cur >= -1,
        z3.Implies(contig, z3.And(st != 0, prev_cut, start == last_end + 1)),
        z3.Implies(z3.Not(contig), carry == 0),
        z3.Implies(z3.And(st != 0, L == 0), contig),
        # trailing-run link
        z3.Implies(st == 3, z3.And(sil == 0, z3.Implies(L > 0, z3.And(V[L - 1], R[L - 1] == 0)), z3.Implies(L == 0, carry == 0))),
        z3.Implies(st == 1, z3.And(sil >= 1, sil <= ms, z3.Implies(L > 0, R[L - 1] == sil), z3.Implies(L == 0, carry == sil),
                                   z3.Implies(sil < L, V[L - 1 - sil]), z3.Implies(sil >= L, contig))),
        # pointwise (skolem j) facts
        z3.Implies(inr(j), z3.And(P[j] == start + j, R[j] <= ms, Rdef(R, V, carry, j))),
        z3.Implies(L > 0, z3.And(Rdef(R, V, carry, L - 1), Rdef(R, V, carry, z3.IntVal(0)))),
        z3.Implies(z3.And(st == 1, sil < L, L - 1 - sil >= 0), Rdef(R, V, carry, L - 1 - sil)),
        # run structure inside trailing silence: for skolem j in the trailing run, frame invalid and R[j] = sil - (L-1-j)
        z3.Implies(z3.And(st == 1, inr(j), j >= L - sil), z3.And(z3.Not(V[j]), R[j] == sil - (L - 1 - j))),
        # first frame valid unless continuation
        z3.Implies(z3.And(L > 0, z3.Not(V[0])), contig),
    )

class GList:
    """symbolic list with ghost run array"""
    def __init__(self, n, P, V, R, carry): self.n, self.P, self.V, self.R, self.carry = n, P, V, R, carry
    def append(self, fr):
        prev = z3.If(self.n == 0, self.carry, self.R[self.n - 1])
        self.P = z3.Store(self.P, self.n, toint(fr.pos)); self.V = z3.Store(self.V, self.n, tobool(fr.valid))
        self.R = z3.Store(self.R, self.n, z3.If(tobool(fr.valid), 0, prev + 1))
        self.n = self.n + 1
    def __getitem__(self, sl):
        hi = toint(sl.stop); n = self.n
        n2 = z3.If(hi < 0, z3.If(n + hi < 0, 0, n + hi), z3.If(hi < n, hi, n))
        return GList(n2, self.P, self.V, self.R, self.carry)
symload.SHIMS['len'] = lambda x: SymInt(x.n) if isinstance(x, GList) else len(x)
core.__dict__['__sx_len__'] = symload.SHIMS['len']

def step(mode, kind):
    def path(e):
        mn, mx, ms = I('min_len'), I('max_len'), I('mcs')
        e.assume(z3.And(mn >= 1, mn <= mx, ms >= 0, ms < mx))
        tk = ST(lambda f: f.valid, SymInt(mn), SymInt(mx), SymInt(ms), mode=mode)
        tk._reinitialize()
        s = dict(st=I('st'), L=I('L'), sil=I('sil'), start=I('start'), cur=I('cur'), contig=z3.Bool('contig'),
                 P=z3.Array('P', z3.IntSort(), z3.IntSort()), V=z3.Array('V', z3.IntSort(), z3.BoolSort()), R=z3.Array('R', z3.IntSort(), z3.IntSort()),
                 carry=I('carry'), mx=mx, ms=ms, last_end=I('last_end'), prev_cut=z3.Bool('prev_cut'))
        j = I('j')
        e.assume(inv(s, j))
        tk._state = SymInt(s['st']); tk._data = GList(s['L'], s['P'], s['V'], s['R'], s['carry']); tk._silence_length = SymInt(s['sil'])
        tk._start_frame = SymInt(s['start']); tk._current_frame = SymInt(s['cur']); tk._init_count = SymInt(I('ic'))
        tk._contiguous_token = SymBool(s['contig'])
        tk._current_frame += 1
        if kind == 'frame':
            tok = tk._process(Frame(tk._current_frame, SymBool(z3.Bool('v'))))
        else:
            tok = tk._post_process()
        d2 = tk._data
        if isinstance(d2, list):
            g = GList(z3.IntVal(0), s['P'], s['V'], s['R'], None)
            # new buffer: carry decided below
            frames = d2; d2 = g
        else: frames = []
        goals = []
        le2, pc2, carry2 = s['last_end'], s['prev_cut'], s['carry']
        if tok is not None:
            data, ts, te = tok; ts = toint(ts); te = toint(te)
            assert isinstance(data, GList)
            n = data.n
            goals += [ts > s['last_end'], te == ts + n - 1, n >= 1, n <= mx,
                      z3.Implies(z3.And(0 <= j, j < n), z3.And(data.P[j] == ts + j, data.R[j] <= ms)),   # no run longer than mcs (incl. carried part)
                      z3.Or(data.V[0], z3.And(s['contig'])),                                               # starts valid unless continuation
                      ]
            # at least one valid frame: witness index
            w = I('w')
            goals.append(z3.Exists([w], z3.And(0 <= w, w < n, data.V[w])))
            if mode & 4:
                truncated = (n == mx)
                goals.append(z3.Or(truncated, data.V[n - 1]))
            le2 = te; pc2 = (n == mx)
            # carry for the next buffer = trailing run of this token if it was cut (contiguous), else 0
            carry2 = z3.If(tobool(tk._contiguous_token), data.R[n - 1], 0)
        if d2.carry is None: d2.carry = carry2 if tok is not None else z3.If(tobool(tk._contiguous_token), s['carry'], 0)
        for f in frames: d2.append(f)
        if kind == 'frame':
            s2 = dict(st=toint(tk._state), L=d2.n, sil=toint(tk._silence_length), start=toint(tk._start_frame), cur=toint(tk._current_frame),
                      contig=tobool(tk._contiguous_token), P=d2.P, V=d2.V, R=d2.R, carry=d2.carry, mx=mx, ms=ms, last_end=le2, prev_cut=pc2)
            goals.append(inv(s2, j))
        e.solver.set('timeout', 30000)
        r = e.check(z3.Not(z3.And(*goals)))
        if r != z3.unsat:
            # find which goal fails
            failing = []
            if r == z3.sat:
                m = e.solver.model()
                failing = [i for i, g in enumerate(goals) if z3.is_false(m.eval(g, True))]
                return ('CEX', failing, {str(d): m[d] for d in m.decls() if d.name() in ('st','L','sil','carry','contig','v','mcs','max_len','min_len','j','start','cur','last_end')}, tok is not None)
            return ('UNKNOWN',)
        return ('ok',)
    e = Engine(); t = time.time()
    res = e.explore(path)
    bad = [r for _, r, _ in res if r[0] != 'ok']
    print(f"mode={mode} kind={kind} paths={e.paths} queries={e.queries} solver_s={e.solver_s:.2f} wall={time.time()-t:.2f} bad={len(bad)}")
    for b in bad[:3]: print('   ', b)
for mode in (0, 2, 4, 6):
    step(mode, 'frame'); step(mode, 'end')
