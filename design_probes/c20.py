import sys, time, z3
ROOT = sys.argv[2] if len(sys.argv) > 2 else '/repo'
sys.path.insert(0, ROOT); sys.path.insert(0, '/tmp/probe')
from eng import *
from auditok.core import StreamTokenizer
class Frame:
    def __init__(s, p, v): s.pos = p; s.valid = v
class Src:
    def __init__(s, f): s.f = f; s.i = 0
    def read(s):
        if s.i >= len(s.f): return None
        s.i += 1; return s.f[s.i - 1]
def run(N, mode, init):
    def path(e):
        v = [SymBool(z3.Bool('v%d' % i)) for i in range(N)]
        mn, mx, ms = (SymInt(z3.Int(n)) for n in ('min_len', 'max_len', 'mcs'))
        e.assume((mn >= 1) & (mn <= mx) & (ms >= 0) & (ms < mx))
        kw = {}
        if init:
            im, ims = SymInt(z3.Int('init_min')), SymInt(z3.Int('init_max_sil'))
            e.assume((im >= 0) & (im < mx) & (ims >= 0)); kw = dict(init_min=im, init_max_silence=ims)
        mk = lambda: StreamTokenizer(lambda f: f.valid, mn, mx, ms, mode=mode, **kw)
        fresh = mk().tokenize(Src([Frame(i, v[i]) for i in range(N)]))
        used = mk()
        # arbitrary stale per-run state (over-approximates any earlier history)
        st = {k: SymInt(z3.Int('stale_' + k)) for k in ('_state', '_init_count', '_silence_length', '_start_frame', '_current_frame')}
        e.assume((st['_state'] >= 0) & (st['_state'] <= 3) & (st['_init_count'] >= 0) & (st['_silence_length'] >= 0) & (st['_start_frame'] >= 0) & (st['_current_frame'] >= -1))
        for k, val in st.items(): setattr(used, k, val)
        used._contiguous_token = SymBool(z3.Bool('stale_contig'))
        used._data = [Frame(-5, SymBool(z3.Bool('stale_v')))]; used._tokens = ['junk']
        again = used.tokenize(Src([Frame(i, v[i]) for i in range(N)]))
        if len(fresh) != len(again):
            r = e.check(); 
            return ('CEX-count', str(e.solver.model())) if r == z3.sat else ('ok',)
        conds = [z3.And(toint(a[1]) == toint(b[1]), toint(a[2]) == toint(b[2]), len(a[0]) == len(b[0])) for a, b in zip(fresh, again)]
        r = e.check(z3.Not(z3.And(*conds))) if conds else z3.unsat
        return ('CEX', str(e.solver.model())) if r == z3.sat else ('ok',)
    e = Engine(); t = time.time(); res = e.explore(path)
    bad = [r for _, r, _ in res if r[0] != 'ok']
    print(f"N={N} mode={mode} init={init} paths={e.paths} queries={e.queries} wall={time.time()-t:.2f} bad={len(bad)}")
    for b in bad[:1]: print('  ', b[0], b[1].replace('\n', ' ')[:400])
N = int(sys.argv[1]) if len(sys.argv) > 1 else 5
run(N, 0, False); run(N, 0, True)
