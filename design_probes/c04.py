import sys, time, z3
ROOT = sys.argv[2] if len(sys.argv) > 2 else '/repo'
sys.path.insert(0, ROOT); sys.path.insert(0, '/tmp/probe')
from eng import *
from auditok.core import StreamTokenizer
class Frame:
    def __init__(s, p, v): s.pos = p; s.valid = v
class Src:
    def __init__(s, f): s.f = f; s.i = 0
    def read(s):
        if s.i >= len(s.f): return None
        s.i += 1; return s.f[s.i - 1]

def ref(v, mn, mx, mcs, drop, strict):
    """declarative greedy segmentation (property C04), init_min <= 1"""
    n = len(v); toks = []; i = 0
    while i < n:
        if not v[i]: i += 1; continue
        s = i; last_valid = i; j = i + 1; gap = 0
        while j < n:
            if v[j]: last_valid = j; gap = 0
            else:
                gap += 1
                if gap > mcs: break
            j += 1
        e_ext = j - 1                      # extended stretch = [s, e_ext]
        p = s; contiguous = False
        while p + mx - 1 <= e_ext:         # full pieces
            toks.append((p, p + mx - 1)); p = p + mx; contiguous = True
        if p <= e_ext:                      # final partial piece [p, e_ext]
            if last_valid >= p:            # holds more than silence
                end = last_valid if drop else e_ext
                ln = end - p + 1
                if (ln >= mn) or (contiguous and not strict):
                    toks.append((p, end))
        i = j + 1 if j < n else n
    return toks

def run(N, mode):
    def path(e):
        v = [SymBool(z3.Bool('v%d' % i)) for i in range(N)]
        mn, mx, ms = (SymInt(z3.Int(n)) for n in ('min_len', 'max_len', 'mcs'))
        e.assume((mn >= 1) & (mn <= mx) & (ms >= 0) & (ms < mx))
        tk = StreamTokenizer(lambda f: f.valid, mn, mx, ms, mode=mode)
        toks = [(s, en) for _, s, en in tk.tokenize(Src([Frame(i, v[i]) for i in range(N)]))]
        want = ref(v, mn, mx, ms, bool(mode & 4), bool(mode & 2))
        if len(toks) != len(want):
            r = e.check()
            if r == z3.sat: return ('CEX-count', str(e.solver.model()), toks, str(want))
            return ('ok',)
        conds = [z3.And(toint(a) == toint(c), toint(b) == toint(d)) for (a, b), (c, d) in zip(toks, want)]
        r = e.check(z3.Not(z3.And(*conds))) if conds else z3.unsat
        if r == z3.sat: return ('CEX', str(e.solver.model()), toks, str(want))
        return ('ok',)
    e = Engine(); t = time.time()
    res = e.explore(path)
    bad = [r for _, r, _ in res if r[0] != 'ok']
    print(f"N={N} mode={mode} paths={e.paths} queries={e.queries} solver_s={e.solver_s:.2f} wall={time.time()-t:.2f} bad={len(bad)}")
    for b in bad[:2]: print('  ', b)
N = int(sys.argv[1]) if len(sys.argv) > 1 else 6
for mode in (0, 2, 4, 6): run(N, mode)
