import sys, time, z3, itertools
sys.path.insert(0, '/tmp/probe')
from eng import *
from sb2 import *
pkg = load_pkg(['exceptions', 'io', 'signal', 'util'])
util = pkg.util
SW, CH, SR = 2, 1, 10
BPS = SW * CH
def run(k1, k2, overlap, limit):
    def path(e):
        n, Bw, H, M = z3.Ints('n B H M')
        e.assume(z3.And(n >= 0, Bw >= 1, H >= 1, H < Bw, M >= 0))
        D = Base('D', n * BPS)
        kw = {}
        if overlap: kw['hop_dur'] = SymRat(H, SR)
        if limit: kw['max_read'] = SymRat(M, SR)
        try:
            r = util.AudioReader(SymBytes.whole(D), block_dur=SymRat(Bw, SR), record=True, sr=SR, sw=SW, ch=CH, **kw)
            r.open()
            try:
                r.data; return ('BAD', 'data before rewind did not raise')
            except RuntimeError: pass
            first = [r.read() for _ in range(k1)]
            r.rewind()
            data1 = r.data
            second = [r.read() for _ in range(k2)]
            r.rewind()
            data2 = r.data
            third = [r.read() for _ in range(k2)]
        except Exception as ex:
            return ('EXC', type(ex).__name__, str(ex)[:70])
        e.solver.add(z3.Length(D.seq) == D.n)
        # consumed = union of blocks read before rewind = D[0 : end of last non-None block] (within limit)
        conds = []
        nn = [b for b in first if b is not None]
        if nn:
            # last block ends at: overlap: (idx*H + len) ; no overlap: sum of lens
            idx = len(nn) - 1
            end = (idx * H * BPS + nn[-1].length()) if overlap else sum((b.length() for b in nn), z3.IntVal(0))
            conds.append(data1.term() == z3.Extract(D.seq, 0, end))
            if limit: conds.append(data1.length() <= M * BPS)
        else:
            conds.append(data1.length() == 0)
        conds.append(data2.term() == data1.term())
        for a, b in zip(second, third):
            conds.append(z3.BoolVal((a is None) == (b is None)))
            if a is not None and b is not None: conds.append(a.term() == b.term())
        # replayed blocks reproduce the first pass as far as it went
        for a, b in zip(first, second):
            if a is not None and b is not None: conds.append(a.term() == b.term())
            if a is not None and b is None: conds.append(z3.BoolVal(False))
        res = e.check(z3.Not(z3.And(*conds)))
        if res == z3.sat: return ('CEX', str(e.solver.model()))
        return (str(res),)
    e = Engine(); t = time.time(); res = e.explore(path)
    from collections import Counter
    c = Counter(r[0] for _, r, _ in res)
    print(k1, k2, overlap, limit, dict(c), f"paths={e.paths} q={e.queries} wall={time.time()-t:.2f}")
    for _, r, _ in res:
        if r[0] not in ('unsat',): print('   ', r); break
for k1, k2 in ((0, 2), (1, 2), (3, 3), (4, 4)):
    for ov, lim in itertools.product((False, True), (False, True)): run(k1, k2, ov, lim)
