import sys, time, z3
sys.path.insert(0, '/tmp/probe')
from eng import *
from sb2 import *
root = sys.argv[2] if len(sys.argv) > 2 else '/repo'
pkg = load_pkg(['exceptions', 'io', 'signal', 'util'], root=root)
util = pkg.util
K = int(sys.argv[1]) if len(sys.argv) > 1 else 3
SW, CH, SR = 2, 1, 10
BPS = SW * CH
def path(e):
    n, Bw, H = z3.Ints('n B H')
    e.assume(z3.And(n >= 0, Bw >= 1, H >= 1, H < Bw))
    D = Base('D', n * BPS)
    try:
        r = util.AudioReader(SymBytes.whole(D), block_dur=SymRat(Bw, SR), hop_dur=SymRat(H, SR), sr=SR, sw=SW, ch=CH)
        r.open()
        blocks = [r.read() for _ in range(K)]
    except Exception as ex:
        return ('EXC', type(ex).__name__, str(ex)[:60])
    e.solver.add(z3.Length(D.seq) == D.n)
    conds = []
    for k, b in enumerate(blocks):
        lo = k * H; 
        # expected: None iff k>0 and no new samples (k*H + B - H >= n  i.e. nothing beyond previous block) or n == 0 ; else D[k*H : min(k*H+B, n)]
        has_new = (n > 0) if k == 0 else (n > (k - 1) * H + Bw)
        if b is None:
            conds.append(z3.Not(has_new))
        else:
            hi = z3.If(lo + Bw < n, lo + Bw, n)
            conds.append(z3.And(has_new, b.term() == z3.Extract(D.seq, lo * BPS, (hi - lo) * BPS), b.length() == (hi - lo) * BPS))
    res = e.check(z3.Not(z3.And(*conds)))
    if res == z3.sat:
        m = e.solver.model(); return ('CEX', str([(d, m[d]) for d in m.decls() if d.name() in 'nBH']), [None if b is None else 'blk' for b in blocks])
    return (str(res), tuple(b is None for b in blocks))
e = Engine(); t = time.time()
res = e.explore(path)
from collections import Counter
c = Counter(r[0] for _, r, _ in res); print(c)
for _, r, _ in res:
    if r[0] in ('CEX', 'EXC'): print(r); break
print(f"K={K} paths={e.paths} queries={e.queries} solver_s={e.solver_s:.2f} wall={time.time()-t:.2f}")
