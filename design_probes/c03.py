import sys, time, z3
ROOT = sys.argv[2] if len(sys.argv) > 2 else '/repo'
sys.path.insert(0, ROOT); sys.path.insert(0, '/tmp/probe')
from eng import *
from auditok.core import StreamTokenizer
class Frame:
    def __init__(s, p, v): s.pos = p; s.valid = v
class Src:
    def __init__(s, f): s.f = f; s.i = 0
    def read(s):
        if s.i >= len(s.f): return None
        s.i += 1; return s.f[s.i - 1]
def run(N, mode, init):
    def path(e):
        v = [z3.Bool('v%d' % i) for i in range(N)]
        mn, mx, ms = (SymInt(z3.Int(n)) for n in ('min_len', 'max_len', 'mcs'))
        e.assume((mn >= 1) & (mn <= mx) & (ms >= 0) & (ms < mx))
        kw = {}; bound = toint(ms)
        if init:
            im, ims = SymInt(z3.Int('init_min')), SymInt(z3.Int('init_max_sil'))
            e.assume((im >= 0) & (im < mx) & (ims >= 0)); kw = dict(init_min=im, init_max_silence=ims)
            bound = z3.If(toint(im) > 1, z3.If(toint(ims) > toint(ms), toint(ims), toint(ms)), toint(ms))
        tk = StreamTokenizer(lambda f: f.valid, mn, mx, ms, mode=mode, **kw)
        toks = tk.tokenize(Src([Frame(i, SymBool(v[i])) for i in range(N)]))
        conds = {}
        prev = None
        for t_i, (data, s, en) in enumerate(toks):
            L = len(data)
            cont = prev is not None and prev[2] + 1 == s          # adjacent (ints concrete in BMC)
            cont_cut = z3.And(z3.BoolVal(cont), len(prev[0]) == toint(mx)) if prev else z3.BoolVal(False)
            # run lengths: r[i] = v ? 0 : r[i-1]+1, carried across adjacent cut
            if prev is not None and cont:
                # trailing run of prev (only counts if prev was cut at max_length)
                pr = z3.IntVal(0)
                for f in prev[0]: pr = z3.If(tobool(f.valid), 0, pr + 1)
                r = z3.If(cont_cut, pr, 0)
            else: r = z3.IntVal(0)
            runs = []
            for f in data:
                r = z3.If(tobool(f.valid), 0, r + 1); runs.append(r)
            conds[('run', t_i)] = z3.And(*[x <= bound for x in runs])
            conds[('somevalid', t_i)] = z3.Or(*[tobool(f.valid) for f in data])
            conds[('startvalid', t_i)] = z3.Or(tobool(data[0].valid), cont_cut)
            if mode & 4: conds[('endvalid', t_i)] = z3.Or(tobool(data[-1].valid), L == toint(mx))
            prev = (data, s, en)
        if not conds: return ('ok',)
        r = e.check(z3.Not(z3.And(*conds.values())))
        if r == z3.sat:
            m = e.solver.model(); fail = [k for k, c in conds.items() if z3.is_false(m.eval(c, True))]
            return ('CEX', fail, str(m).replace('\n', ' '), [(len(d), s, en) for d, s, en in toks])
        return ('ok',)
    e = Engine(); t = time.time(); res = e.explore(path)
    bad = [r for _, r, _ in res if r[0] != 'ok']
    print(f"N={N} mode={mode} init={init} paths={e.paths} wall={time.time()-t:.1f} bad={len(bad)}")
    for b in bad[:2]: print('  ', str(b)[:500])
N = int(sys.argv[1]) if len(sys.argv) > 1 else 6
for mode in (0, 4):
    run(N, mode, False); run(N, mode, True)
