import sys, time, z3
sys.path.insert(0, '/tmp/probe')
from eng import *
from sb2 import *
pkg = load_pkg(['exceptions', 'io', 'signal', 'plotting', 'util', 'core'])
core = pkg.core
K = int(sys.argv[1]) if len(sys.argv) > 1 else 3
SW, CH, SR = 2, 2, 10
BPS = SW * CH
def path(e):
    n = z3.Int('n'); Bw = z3.Int('B')
    e.assume(z3.And(n >= 0, Bw >= 1, n <= K * Bw))
    D = Base('D', n * BPS)
    mn, mx, ms = z3.Ints('mn mx ms')
    e.assume(z3.And(mn >= 1, mn <= mx, ms >= 0, ms < mx))
    calls = []
    def validator(frame):
        k = len(calls); calls.append(frame); return SymBool(z3.Bool('v%d' % k))
    seq = iter([SymInt(mn), SymInt(mx), SymInt(ms)])
    core._duration_to_nb_windows = lambda *a, **k: next(seq)
    regs = list(core.split(SymBytes.whole(D), min_dur=1, max_dur=1, max_silence=1, analysis_window=SymRat(Bw, SR), sr=SR, sw=SW, ch=CH, validator=validator))
    conds = []
    for r in regs:
        st = SymRat.of(r.start); ln = r.data.length()
        cands = []
        for kk in range(K):
            cands.append(z3.And(st.eqz(SymRat(kk * Bw, SR)), r.data.term() == z3.Extract(D.seq, kk * Bw * BPS, ln),
                                ln % BPS == 0, (SymRat.of(r.end) - st).eqz(r.duration),
                                SymRat.of(r.duration).eqz(SymRat(ln, BPS * SR))))
        conds.append(z3.Or(*cands))
    bad = z3.Not(z3.And(*conds)) if conds else z3.BoolVal(False)
    e.solver.add(z3.Length(D.seq) == D.n)
    res = e.check(bad)
    return (str(res), len(regs), len(calls))
e = Engine(); t = time.time()
res = e.explore(path)
from collections import Counter
print(Counter(r for _, r, _ in res).most_common(12))
print(f"K={K} paths={e.paths} queries={e.queries} solver_s={e.solver_s:.2f} wall={time.time()-t:.2f}")
