import ast, sys, types, importlib, builtins
from eng import *

class SymList:
    """abstract list: symbolic length n (z3 Int), arrays pos/valid indexed 0..n-1"""
    def __init__(self, n, pos, valid): self.n = n; self.pos = pos; self.valid = valid
    def append(self, fr):
        self.pos = z3.Store(self.pos, self.n, toint(fr.pos))
        self.valid = z3.Store(self.valid, self.n, tobool(fr.valid))
        self.n = self.n + 1
    def __getitem__(self, sl):
        assert isinstance(sl, slice) and sl.step is None
        lo = 0 if sl.start is None else sl.start
        assert isinstance(lo, int) and lo == 0
        hi = toint(sl.stop)
        # python semantics: hi<0 -> max(n+hi,0); hi>=0 -> min(hi,n)
        n2 = z3.If(hi < 0, z3.If(self.n + hi < 0, 0, self.n + hi), z3.If(hi < self.n, hi, self.n))
        return SymList(n2, self.pos, self.valid)
    def __bool__(self): return Engine.cur.branch(self.n > 0)
    @staticmethod
    def of(x):
        if isinstance(x, SymList): return x
        # real list of frames
        P = z3.K(z3.IntSort(), z3.IntVal(-7)); V = z3.K(z3.IntSort(), z3.BoolVal(False))
        s = SymList(z3.IntVal(0), P, V)
        for f in x: s.append(f)
        return s

def sx_len(x):
    if isinstance(x, SymList): return SymInt(x.n)
    return builtins.len(x)

SHIMS = {'len': sx_len}

class T(ast.NodeTransformer):
    def visit_Name(self, node):
        if isinstance(node.ctx, ast.Load) and node.id in SHIMS:
            return ast.copy_location(ast.Name(id='__sx_%s__' % node.id, ctx=ast.Load()), node)
        return node

def load(modname, path):
    src = open(path).read()
    tree = T().visit(ast.parse(src, path)); ast.fix_missing_locations(tree)
    real = importlib.import_module(modname)
    m = types.ModuleType(modname + '__sym')
    m.__dict__.update({'__package__': real.__package__, '__file__': path, '__name__': modname})
    for k, f in SHIMS.items(): m.__dict__['__sx_%s__' % k] = f
    exec(compile(tree, path, 'exec'), m.__dict__)
    return m
