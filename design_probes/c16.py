import sys, time, z3
sys.path.insert(0, '/tmp/probe')
from eng import *
from sb2 import *
pkg = load_pkg(['exceptions', 'io', 'signal', 'plotting', 'util', 'core'])
core = pkg.core
def run(SW, CH, a_none, b_none):
    BPS = SW * CH
    def path(e):
        n, a, b, sr = z3.Ints('n a b sr')
        e.assume(z3.And(n >= 0, sr >= 1))
        D = Base('D', n * BPS)
        reg = core.AudioRegion(SymBytes.whole(D), 16000, SW, CH)
        try:
            r = reg[(None if a_none else SymInt(a)):(None if b_none else SymInt(b))]
        except Exception as ex:
            return ('EXC', type(ex).__name__, str(ex)[:80])
        # oracle: slice.indices(n) in LIA
        def norm(x, none_default):
            return none_default if x is None else z3.If(x < 0, z3.If(x + n < 0, 0, x + n), z3.If(x > n, n, x))
        lo = norm(None if a_none else a, z3.IntVal(0)); hi = norm(None if b_none else b, n)
        ln = z3.If(hi > lo, hi - lo, 0)
        e.solver.add(z3.Length(D.seq) == D.n)
        good = z3.And(r.data.term() == z3.Extract(D.seq, lo * BPS, ln * BPS), r.data.length() == ln * BPS,
                      toint(core.__dict__['__sx_len__'](r.data)) == ln * BPS)
        res = e.check(z3.Not(good))
        if res == z3.sat: return ('CEX', str(e.solver.model()))
        # len(region), duration
        L = r.__len__() if False else None
        return (str(res),)
    e = Engine(); t = time.time(); res = e.explore(path)
    from collections import Counter
    print(SW, CH, a_none, b_none, Counter(r[0] for _, r, _ in res), f"paths={e.paths} q={e.queries} wall={time.time()-t:.2f}")
    for _, r, _ in res:
        if r[0] != 'unsat': print('   ', r); break
for sw, ch in ((1, 1), (2, 3), (4, 2)):
    for an in (False, True):
        for bn in (False, True): run(sw, ch, an, bn)
