import sys, time, z3, math
sys.path.insert(0, '/repo'); sys.path.insert(0, '/tmp/probe')
from eng import *
F = z3.Float64(); RNE = z3.RNE()
def fpv(x):
    if isinstance(x, SymFP): return x.t
    return z3.FPVal(float(x), F)
class SymFPInt:   # integral-valued FP
    def __init__(self, t): self.t = t
class SymFP:
    def __init__(self, t): self.t = t
    def __truediv__(self, o): return SymFP(z3.fpDiv(RNE, self.t, fpv(o)))
    def __add__(self, o): return SymFP(z3.fpAdd(RNE, self.t, fpv(o)))
    __radd__ = __add__
    def __lt__(self, o): return SymBool(z3.fpLT(self.t, fpv(o)))
    def __le__(self, o): return SymBool(z3.fpLEQ(self.t, fpv(o)))
    def __gt__(self, o): return SymBool(z3.fpGT(self.t, fpv(o)))
    def __eq__(self, o): return SymBool(z3.fpEQ(self.t, fpv(o)))
    __hash__ = None
    def __ceil__(self): return SymFPInt(z3.fpRoundToIntegral(z3.RTP(), self.t))
    def __floor__(self): return SymFPInt(z3.fpRoundToIntegral(z3.RTN(), self.t))
    def __format__(self, s): return '<fp>'
import symload
symload.SHIMS['int'] = lambda x: x if isinstance(x, SymFPInt) else int(x)
core = symload.load('auditok.core', '/repo/auditok/core.py')
def path(e):
    d, w = SymFP(z3.FP('d', F)), SymFP(z3.FP('w', F))
    e.solver.add(z3.fpLEQ(d.t / w.t, fpv(1e5)), z3.fpGEQ(w.t, fpv(1e-6)), z3.fpLEQ(d.t, fpv(1e6)), z3.Not(z3.fpIsNaN(d.t)), z3.Not(z3.fpIsNaN(w.t)))
    try:
        n = core._duration_to_nb_windows(d, w, math.ceil)
    except ValueError:
        return ('raise',)
    if isinstance(n, int): return ('const', n)
    q = z3.fpDiv(RNE, d.t, w.t); r = z3.fpRoundToIntegral(RNE, q); dist = z3.fpAbs(z3.fpSub(RNE, q, r))
    bad = z3.Not(z3.And(z3.Implies(z3.fpLEQ(dist, fpv(5e-11)), z3.fpEQ(n.t, r)), z3.Implies(z3.fpGT(dist, fpv(1.1e-9)), z3.fpEQ(n.t, z3.fpRoundToIntegral(z3.RTP(), q)))))
    t0 = time.time(); res = e.check(bad)
    out = ('CEX', float(eval(str(e.solver.model().eval(d.t, True)).replace('*(2**', '*(2.0**'))), float(eval(str(e.solver.model().eval(w.t, True)).replace('*(2**', '*(2.0**')))) if res == z3.sat else (str(res),)
    return out + (f"{time.time()-t0:.1f}s",)
e = Engine(); t = time.time()
res = e.explore(path)
print([r for _, r, _ in res], f"paths={e.paths} queries={e.queries} solver_s={e.solver_s:.1f} wall={time.time()-t:.1f}")
for _, r, _ in res:
    if r[0] == 'CEX':
        import auditok.core as rc
        print('replay on real code:', r[1], r[2], r[1] / r[2], rc._duration_to_nb_windows(r[1], r[2], math.ceil))
