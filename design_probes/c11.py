import sys, time, z3
sys.path.insert(0, '/tmp/probe')
from eng import *
from sb2 import *
pkg = load_pkg(['exceptions', 'io'])
io = pkg.io
from collections import Counter
def run(SW, CH, op):
    BPS = SW * CH
    def path(e):
        n, p, k = z3.Ints('n p k')
        e.assume(z3.And(n >= 0, p >= 0, p <= n))
        D = Base('D', n * BPS)
        src = io.BufferAudioSource(SymBytes.whole(D), 16000, SW, CH)
        src._current_position_bytes = SymInt(p * BPS)
        opened = z3.Bool('open'); src._is_open = SymBool(opened)
        e.solver.add(z3.Length(D.seq) == D.n)
        try:
            if op == 'read':
                r = src.read(SymInt(k))
            elif op == 'readNone':
                r = src.read(None)
            elif op == 'setpos':
                src.position = SymInt(k); r = 'set'
            elif op == 'close':
                src.close(); r = 'closed'
        except Exception as ex:
            exn = type(ex).__name__
            if op.startswith('read'): good = z3.Not(opened); want = 'AudioIOError'
            elif op == 'setpos': good = z3.Or(k < -n, k > n); want = 'IndexError'
            else: good = z3.BoolVal(False); want = '?'
            res = e.check(z3.Not(good))
            return ('EXC-' + exn, 'ok' if (res == z3.unsat and exn == want) else 'BAD ' + str(res))
        pos2 = toint(src._current_position_bytes)
        if op.startswith('read'):
            kk = k if op == 'read' else z3.IntVal(-1)
            want_len = z3.If(kk < 0, n - p, z3.If(kk < n - p, kk, n - p))
            if r is None:
                good = z3.And(opened, want_len == 0, pos2 == p * BPS)
            else:
                good = z3.And(opened, want_len > 0, r.length() == want_len * BPS, r.term() == z3.Extract(D.seq, p * BPS, want_len * BPS), pos2 == (p + want_len) * BPS)
        elif op == 'setpos':
            good = z3.And(k >= -n, k <= n, pos2 == z3.If(k < 0, n + k, k) * BPS, toint(src.position) == z3.If(k < 0, n + k, k))
        else:
            good = z3.And(pos2 == 0, z3.BoolVal(src._is_open is False))
        res = e.check(z3.Not(good))
        if res == z3.sat: return ('CEX', str(e.solver.model()).replace('\n', ' '))
        return (str(res), 'none' if r is None else 'val')
    e = Engine(); t = time.time(); res = e.explore(path)
    print(SW, CH, op, dict(Counter(r for _, r, _ in res)), f"paths={e.paths} wall={time.time()-t:.2f}")
for sw, ch in ((1, 1), (2, 3)):
    for op in ('read', 'readNone', 'setpos', 'close'): run(sw, ch, op)
