import sys, time, z3
sys.path.insert(0, '/repo'); sys.path.insert(0, '/tmp/probe')
from eng import *
from auditok.core import StreamTokenizer

class Frame:
    __slots__ = ('pos', 'valid')
    def __init__(self, pos, valid): self.pos = pos; self.valid = valid

class Src:
    def __init__(self, frames): self.frames = frames; self.i = 0; self.reads = 0
    def read(self):
        self.reads += 1
        if self.i >= len(self.frames): return None
        f = self.frames[self.i]; self.i += 1; return f

def run(N, mode):
    def path(e):
        v = [SymBool(z3.Bool('v%d' % i)) for i in range(N)]
        mn, mx, ms = (SymInt(z3.Int(n)) for n in ('min_len', 'max_len', 'mcs'))
        e.assume((mn >= 1) & (mn <= mx) & (ms >= 0) & (ms < mx))
        frames = [Frame(i, v[i]) for i in range(N)]
        tk = StreamTokenizer(lambda f: f.valid, mn, mx, ms, mode=mode)
        toks = tk.tokenize(Src(frames))
        # property C01 + C02(max)
        ok = z3.BoolVal(True)
        prev_end = -1
        conds = []
        for data, s, en in toks:
            conds.append(toint(s) > prev_end if isinstance(prev_end, int) else toint(s) > toint(prev_end))
            conds.append(toint(en) == toint(s) + len(data) - 1)
            conds.append(toint(s) == data[0].pos)
            for k, f in enumerate(data): conds.append(z3.BoolVal(f.pos == data[0].pos + k))
            conds.append(toint(mx) >= len(data))
            prev_end = en
        bad = z3.Not(z3.And(*conds)) if conds else z3.BoolVal(False)
        r = e.check(bad)
        if r == z3.sat:
            m = e.solver.model()
            return ('CEX', str(m), [(len(d), s, en) for d, s, en in toks])
        return ('ok', len(toks))
    e = Engine()
    t = time.time()
    res = e.explore(path)
    cex = [r for _, r, _ in res if r[0] == 'CEX']
    print(f"N={N} mode={mode} paths={e.paths} queries={e.queries} solver_s={e.solver_s:.2f} wall={time.time()-t:.2f} cex={len(cex)}")
    if cex: print(cex[0])

for N in (4, 6, 8):
    run(N, 0)
