"""Prototype cooperative scheduler: real threads, baton passing, schedule choices forked through Engine."""
import threading, z3, sys, types
from queue import Empty
from eng import *

class Killed(BaseException): pass

class Sched:
    cur = None
    def __init__(self, eng, max_timeouts=1):
        Sched.cur = self
        self.eng = eng; self.threads = []; self.main = CoopMain(self); self.current = self.main
        self.abort = None; self.nchoice = 0; self.max_timeouts = max_timeouts; self.log = []
        self.outcome = None; self.preempt = 0; self.max_preempt = 2; self.private = set()
    # --- called by the running thread at a sync point; 'blocked' is a callable telling if it can proceed
    def yield_(self, me, can_run, can_timeout=False):
        me.can_run = can_run; me.can_timeout = can_timeout; me.timed_out = False
        self.pick(me)
        return me.timed_out
    def pick(self, me):
        while True:
            opts = []
            for t in [self.main] + self.threads:
                if t.finished or not t.started: continue
                if t.can_run(): opts.append((t, False))
                elif t.can_timeout and t.timeouts < self.max_timeouts: opts.append((t, True))
            if me.can_run() and not me.finished and self.preempt >= self.max_preempt:
                opts = [(me, False)]
            if not opts:
                self.outcome = ('deadlock', [(t.name, t.finished) for t in self.threads])
                self.kill_all(me); return
            # symbolic choice
            if len(opts) == 1: k = 0
            else:
                c = z3.Int('sched%d' % self.nchoice); self.nchoice += 1
                self.eng.solver.add(c >= 0, c < len(opts))
                k = None
                for i in range(len(opts) - 1):
                    if self.eng.branch(c == i): k = i; break
                if k is None: k = len(opts) - 1
            t, to = opts[k]
            if to: t.timed_out = True; t.timeouts += 1
            self.log.append(t.name + ('!' if to else ''))
            if t is me: return
            if me.can_run() and not me.finished: self.preempt += 1
            self.current = t
            t.go.release(); me.go.acquire()
            if self.abort is not None and me is not self.main: raise Killed()
            if self.abort is not None and me is self.main: raise self.abort
            return
    def kill_all(self, me):
        self.abort = self.abort or Killed()
        if me is not self.main:
            self.main.go.release(); raise Killed()
        raise self.abort
    def cleanup(self):
        self.abort = self.abort or Killed()
        for t in self.threads:
            if t.started and threading.Thread.is_alive(t): t.go.release()
        for t in self.threads:
            if t.started: threading.Thread.join(t, 5)

class CoopMain:
    name = 'main'
    def __init__(self, s): self.go = threading.Semaphore(0); self.finished = False; self.started = True; self.can_run = lambda: True; self.can_timeout = False; self.timeouts = 0

class CoopThread(threading.Thread):
    def __init__(self, *a, **k):
        super().__init__(*a, **k); self.daemon = True
        s = Sched.cur; self.s = s; s.threads.append(self)
        self.go = threading.Semaphore(0); self.finished = False; self.started = False
        self.can_run = lambda: True; self.can_timeout = False; self.timeouts = 0
        self.name = type(self).__name__ + str(len(s.threads))
        self._user_run = self.run; self.run = self._wrapped
    def _wrapped(self):
        self.go.acquire()
        try:
            if self.s.abort is None: self._user_run()
        except Killed: 
            self.finished = True; return
        except BaseException as e:
            self.s.abort = e; self.finished = True; self.s.main.go.release(); return
        self.finished = True
        try: self.s.pick(self)   # hand over baton forever
        except Killed: pass
    def start(self):
        super().start(); self.started = True
    def join(self, timeout=None):
        me = self.s.current
        self.s.yield_(me, lambda: self.finished)
    def is_alive(self): return self.started and not self.finished

class CoopQueue:
    def __init__(self): self.items = []
    def put(self, x):
        s = Sched.cur; s.yield_(s.current, lambda: True); self.items.append(x)
    def get(self, timeout=None):
        s = Sched.cur
        to = s.yield_(s.current, lambda: len(self.items) > 0, can_timeout=timeout is not None)
        if to: raise Empty
        return self.items.pop(0)
    def get_nowait(self):
        s = Sched.cur
        if id(self) not in s.private: s.yield_(s.current, lambda: True)
        if not self.items: raise Empty
        return self.items.pop(0)
