import sys, time, z3
sys.path.insert(0, '/tmp/probe')
from eng import *
from sb2 import *
import sb2
# divmod shim for SymInt by concrete positive int
def sx_divmod(a, b):
    if isinstance(a, SymInt) and isinstance(b, int) and b > 0:
        sx_divmod.c += 1
        q, r = z3.Int('_q%d' % sx_divmod.c), z3.Int('_r%d' % sx_divmod.c)
        Engine.cur.solver.add(a.t == b * q + r, r >= 0, r < b)
        return SymInt(q), SymInt(r)
    return divmod(a, b)
sx_divmod.c = 0
sb2.SHIMS['divmod'] = sx_divmod
pkg = load_pkg(['exceptions', 'io', 'signal', 'plotting', 'util', 'core'])
core = pkg.core
from collections import Counter
def run(SW, CH, ndiv):
    BPS = SW * CH
    def path(e):
        n = z3.Int('n'); e.assume(n >= 1)
        D = Base('D', n * BPS)
        reg = core.AudioRegion(SymBytes.whole(D), 16000, SW, CH)
        e.solver.add(z3.Length(D.seq) == D.n)
        try: parts = reg / ndiv
        except Exception as ex: return ('EXC', type(ex).__name__, str(ex)[:60])
        lens = [p.data.length() for p in parts]
        tot = z3.Sum(lens) if lens else z3.IntVal(0)
        allsegs = SymBytes.__new__(SymBytes); allsegs.segs = [g for p in parts for g in p.data.segs]
        eq = sb2.lia_equal_slice(e, allsegs, D, z3.IntVal(0), n * BPS)
        if eq != 'unsat': return ('CEX-eq', eq, len(parts))
        conds = [tot == n * BPS, z3.If(n < ndiv, n, ndiv) == len(parts)]
        for a in lens:
            conds.append(a % BPS == 0); conds.append(a >= BPS)
            for b in lens: conds.append(z3.And(a - b <= BPS, b - a <= BPS))
        res = e.check(z3.Not(z3.And(*conds)))
        if res == z3.sat: return ('CEX', str(e.solver.model()).replace('\n', ' '), len(parts))
        return (str(res), len(parts))
    e = Engine(); t = time.time(); res = e.explore(path)
    print(SW, CH, ndiv, dict(Counter(r[:2] for _, r, _ in res)), f"paths={e.paths} wall={time.time()-t:.2f}")
    for _, r, _ in res:
        if r[0] != 'unsat': print('   ', r); break
for sw, ch in ((1, 1), (2, 3)):
    for nd in (1, 2, 3, 5, 6): run(sw, ch, nd)
