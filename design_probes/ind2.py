import sys, time, z3
sys.path.insert(0, '/repo'); sys.path.insert(0, '/tmp/probe')
from eng import *
from symload import *
core = load('auditok.core', '/repo/auditok/core.py')
ST = core.StreamTokenizer
I = z3.Int
class Frame:
    def __init__(self, pos, valid): self.pos = pos; self.valid = valid

def inv(st, L, sil, start, cur, contig, P, mx, last_end, i):
    return z3.And(L >= 0, st >= 0, st <= 3, sil >= 0,
        z3.Implies(st == 0, L == 0),
        z3.Implies(st != 0, z3.And(start + L == cur + 1, start >= 0, last_end < start)),
        last_end <= cur, cur >= -1,
        z3.Implies(z3.Or(st == 1, st == 3), L < mx),
        z3.Implies(z3.And(0 <= i, i < L), P[i] == start + i))

def step(mode, kind):
    def path(e):
        mn, mx, ms = I('min_len'), I('max_len'), I('mcs')
        e.assume(z3.And(mn >= 1, mn <= mx, ms >= 0, ms < mx))
        tk = ST(lambda f: f.valid, SymInt(mn), SymInt(mx), SymInt(ms), mode=mode)
        tk._reinitialize()
        st, L, sil, start, cur, ic, last_end = (I(n) for n in 'st L sil start cur ic last_end'.split())
        contig = z3.Bool('contig')
        P = z3.Array('P', z3.IntSort(), z3.IntSort()); V = z3.Array('V', z3.IntSort(), z3.BoolSort())
        j = z3.Int('j'); e.assume(inv(st, L, sil, start, cur, contig, P, mx, last_end, j))
        e.assume(st != 2)  # init_min=0: POSSIBLE_NOISE unreachable
        tk._state = SymInt(st); tk._data = SymList(L, P, V); tk._silence_length = SymInt(sil)
        tk._start_frame = SymInt(start); tk._current_frame = SymInt(cur); tk._init_count = SymInt(ic)
        tk._contiguous_token = SymBool(contig)
        if kind == 'frame':
            tk._current_frame += 1
            fr = Frame(tk._current_frame, SymBool(z3.Bool('v')))
            tok = tk._process(fr)
        else:
            tk._current_frame += 1
            tok = tk._post_process()
        d2 = SymList.of(tk._data)
        goals = []
        le2 = last_end
        cur2 = toint(tk._current_frame)
        if tok is not None:
            data, s, en = tok
            data = SymList.of(data); s = toint(s); en = toint(en)
            goals += [s > last_end, en == s + data.n - 1, s >= 0, en <= cur2 - (1 if kind == 'end' else 0), data.n <= mx, data.n >= 1,
                      z3.Implies(z3.And(0 <= j, j < data.n), data.pos[j] == s + j)]
            le2 = en
        if kind == 'frame':
            post = inv(toint(tk._state), d2.n, toint(tk._silence_length), toint(tk._start_frame), cur2,
                       tobool(tk._contiguous_token), d2.pos, mx, le2, j)
            goals.append(post)
        bad = z3.Not(z3.And(*goals))
        r = e.check(bad)
        if r != z3.unsat:
            return ('CEX' if r == z3.sat else 'UNKNOWN', str(e.solver.model()) if r == z3.sat else '')
        return ('ok',)
    e = Engine(); t = time.time()
    res = e.explore(path)
    bad = [r for _, r, _ in res if r[0] != 'ok']
    print(f"mode={mode} kind={kind} paths={e.paths} queries={e.queries} solver_s={e.solver_s:.2f} wall={time.time()-t:.2f} bad={len(bad)}")
    for b in bad[:2]: print(b)

for mode in (0, 2, 4, 6):
    step(mode, 'frame'); step(mode, 'end')
