"""Prototype: symbolic execution of real Python by proxy values + DFS re-execution, z3 back-end."""
import z3, time

class Abort(BaseException): pass
class Infeasible(BaseException): pass

class Engine:
    cur = None
    def __init__(self):
        self.queries = 0; self.solver_s = 0.0; self.paths = 0
    def explore(self, fn, max_paths=10**9):
        """fn(engine) is run once per path. returns list of (decisions, result)"""
        Engine.cur = self
        stack = [[]]
        results = []
        while stack:
            prefix = stack.pop()
            self.prefix = prefix; self.pos = 0; self.trace = []
            self.solver = z3.Solver(); self.pending = []
            self.fresh = 0
            try:
                r = fn(self)
                results.append((list(self.trace), r, self.solver.assertions()))
            except Infeasible:
                pass
            self.paths += 1
            for p in self.pending: stack.append(p)
            if self.paths >= max_paths: break
        return results
    def check(self, *extra):
        t = time.time(); self.queries += 1
        r = self.solver.check(*extra)
        self.solver_s += time.time() - t
        return r
    def assume(self, c):
        c = z3.simplify(tobool(c))
        if z3.is_false(c): raise Infeasible()
        self.solver.add(c)
    def branch(self, c):
        c = z3.simplify(c)
        if z3.is_true(c): return True
        if z3.is_false(c): return False
        if self.pos < len(self.prefix):
            d = self.prefix[self.pos]
        else:
            ct = self.check(c) == z3.sat
            cf = self.check(z3.Not(c)) == z3.sat
            if ct and cf:
                d = True
                self.pending.append(self.trace + [False])
            elif ct: d = True
            elif cf: d = False
            else: raise Infeasible()
        self.pos += 1; self.trace.append(d)
        self.solver.add(c if d else z3.Not(c))
        return d

def tobool(x):
    if isinstance(x, SymBool): return x.t
    if isinstance(x, bool): return z3.BoolVal(x)
    return x
def toint(x):
    if isinstance(x, SymInt): return x.t
    if isinstance(x, bool): return z3.IntVal(int(x))
    if isinstance(x, int): return z3.IntVal(x)
    raise TypeError(type(x))

class SymBool:
    def __init__(self, t): self.t = t
    def __bool__(self): return Engine.cur.branch(self.t)
    def __and__(self, o): return SymBool(z3.And(self.t, tobool(o)))
    __rand__ = __and__
    def __or__(self, o): return SymBool(z3.Or(self.t, tobool(o)))
    __ror__ = __or__
    def __invert__(self): return SymBool(z3.Not(self.t))
    def __eq__(self, o): return SymBool(self.t == tobool(o))
    def __ne__(self, o): return SymBool(self.t != tobool(o))
    __hash__ = None

class SymInt:
    def __init__(self, t): self.t = t
    def _b(op):
        def f(self, o):
            if not isinstance(o, (int, SymInt)): return NotImplemented
            return SymInt(op(self.t, toint(o)))
        def r(self, o):
            if not isinstance(o, (int, SymInt)): return NotImplemented
            return SymInt(op(toint(o), self.t))
        return f, r
    __add__, __radd__ = _b(lambda a, b: a + b)
    __sub__, __rsub__ = _b(lambda a, b: a - b)
    __mul__, __rmul__ = _b(lambda a, b: a * b)
    def __neg__(self): return SymInt(-self.t)
    def _c(op):
        def f(self, o):
            if o is None: return NotImplemented
            if not isinstance(o, (int, SymInt)): return NotImplemented
            return SymBool(op(self.t, toint(o)))
        return f
    __lt__ = _c(lambda a, b: a < b); __le__ = _c(lambda a, b: a <= b)
    __gt__ = _c(lambda a, b: a > b); __ge__ = _c(lambda a, b: a >= b)
    def __eq__(self, o):
        if not isinstance(o, (int, SymInt)): return False
        return SymBool(self.t == toint(o))
    def __ne__(self, o):
        if not isinstance(o, (int, SymInt)): return True
        return SymBool(self.t != toint(o))
    def __and__(self, o):  # only for mode & const with small range: encode via ite table
        raise NotImplementedError
    __hash__ = None
    def __bool__(self): return Engine.cur.branch(self.t != 0)
    def __index__(self): raise Abort("concretisation of symbolic int")
    def __format__(self, spec): return "<sym>"
    def __repr__(self): return "SymInt(%s)" % self.t
