import sys, time, z3, types, ast, importlib
ROOT = sys.argv[3] if len(sys.argv) > 3 else '/repo'
sys.path.insert(0, ROOT); sys.path.insert(0, '/tmp/probe')
from eng import *
import coop
from coop import *
ft = types.ModuleType('sx_threading'); ft.Thread = CoopThread
fq = types.ModuleType('sx_queue'); fq.Queue = CoopQueue; fq.Empty = Empty
sys.modules.update({'sx_threading': ft, 'sx_queue': fq})
class T(ast.NodeTransformer):
    def visit_ImportFrom(self, n):
        if n.module in ('threading', 'queue') and n.level == 0: n.module = 'sx_' + n.module
        return n
def load(modname, path):
    tree = T().visit(ast.parse(open(path).read(), path)); ast.fix_missing_locations(tree)
    real = importlib.import_module(modname)
    m = types.ModuleType(modname); m.__dict__.update({'__package__': real.__package__, '__file__': path})
    exec(compile(tree, path, 'exec'), m.__dict__); return m
W = load('auditok.workers', ROOT + '/auditok/workers.py')
from auditok.util import AudioReader
from auditok.core import split
class Obs(W.Worker):
    def __init__(self): self.got = []; super().__init__(timeout=0.2)
    def _process_message(self, m): self.got.append((m[0], m[1].meta.start, bytes(m[1])))
class CountingReader:
    def __init__(self, r): self.r = r; self.blocks = []
    def read(self):
        b = self.r.read()
        if b is not None: self.blocks.append(b)
        return b
    def __getattr__(self, n): return getattr(self.r, n)
NF = int(sys.argv[1]) if len(sys.argv) > 1 else 3
P = int(sys.argv[2]) if len(sys.argv) > 2 else 2
data = bytes((i % 251) for i in range(NF * 2))
KW = dict(min_dur=0.1, max_dur=0.3, max_silence=0.1)
def path(e):
    s = Sched(e, max_timeouts=1); s.max_preempt = P
    v = {i: SymBool(z3.Bool('v%d' % i)) for i in range(NF)}
    def validator(frame): return v[frame[0] // 2]
    try:
        reader = CountingReader(AudioReader(data, block_dur=0.1, sr=10, sw=2, ch=1))
        ob = Obs()
        tw = W.TokenizerWorker(reader, [ob], validator=validator, **KW)
        tw.start_all()
        tw.stop_all()          # main's first queue operation may be scheduled at any point
        alive = [t.name for t in s.threads if not t.finished]
        prefix = b''.join(reader.blocks)
        want = [(i + 1, r.meta.start, bytes(r)) for i, r in enumerate(split(prefix, sr=10, sw=2, ch=1, analysis_window=0.1, validator=validator, **KW))] if prefix else []
        res = ('done', ob.got, want, alive, len(reader.blocks))
    except Killed:
        res = s.outcome
    finally:
        s.cleanup()
    if res and res[0] == 'done':
        ok = res[1] == res[2] and not res[3]
        return ('ok' if ok else 'BAD', res, s.log)
    return ('BAD', res, s.log)
e = Engine(); t = time.time()
res = e.explore(path)
bad = [r for _, r, _ in res if r[0] != 'ok']
from collections import Counter
print(Counter(r[1][4] for _, r, _ in res if r[0] == 'ok'))
print(f"NF={NF} P={P} paths={e.paths} queries={e.queries} solver_s={e.solver_s:.2f} wall={time.time()-t:.2f} bad={len(bad)} threads_alive={threading.active_count()}")
for b in bad[:3]: print(str(b)[:600])
