import sys, time, z3, types, ast, importlib
sys.path.insert(0, '/repo'); sys.path.insert(0, '/tmp/probe')
from eng import *
import coop
from coop import *
# fake modules
ft = types.ModuleType('sx_threading'); ft.Thread = CoopThread
fq = types.ModuleType('sx_queue'); fq.Queue = CoopQueue; fq.Empty = Empty
sys.modules['sx_threading'] = ft; sys.modules['sx_queue'] = fq
class T(ast.NodeTransformer):
    def visit_ImportFrom(self, n):
        if n.module in ('threading', 'queue') and n.level == 0: n.module = 'sx_' + n.module
        return n
def load(modname, path):
    tree = T().visit(ast.parse(open(path).read(), path)); ast.fix_missing_locations(tree)
    real = importlib.import_module(modname)
    m = types.ModuleType(modname); m.__dict__.update({'__package__': real.__package__, '__file__': path})
    exec(compile(tree, path, 'exec'), m.__dict__); return m
W = load('auditok.workers', '/repo/auditok/workers.py')
from auditok.util import AudioReader

class Obs(W.Worker):
    def __init__(self): self.got = []; super().__init__(timeout=0.2)
    def _process_message(self, m): self.got.append(m[0])

NF = int(sys.argv[1]) if len(sys.argv) > 1 else 6
NOBS = int(sys.argv[2]) if len(sys.argv) > 2 else 1
data = bytes(range(NF * 2))  # NF frames of 1 sample (2 bytes) at sr=10, aw=0.1
def path(e):
    s = Sched(e, max_timeouts=1)
    v = {i: SymBool(z3.Bool('v%d' % i)) for i in range(NF)}
    def validator(frame): return v[frame[0] // 2]
    try:
        reader = AudioReader(data, block_dur=0.1, sr=10, sw=2, ch=1)
        obs = [Obs() for _ in range(NOBS)]
        tw = W.TokenizerWorker(reader, obs, validator=validator, min_dur=0.1, max_dur=0.3, max_silence=0.1)
        s.private.add(id(tw._inbox)); s.max_preempt = int(sys.argv[3]) if len(sys.argv) > 3 else 2; tw.start_all()
        tw.join()
        for o in obs: o.join()
        res = ('done', [tuple(o.got) for o in obs], [d.id for d in tw.detections])
    except Killed:
        res = s.outcome
    finally:
        s.cleanup()
    if res[0] == 'done':
        ids = res[2]
        ok = all(list(g) == ids for g in res[1]) and ids == list(range(1, len(ids) + 1))
        return ('ok' if ok else 'BAD', res, s.log)
    return ('BAD', res, s.log)
e = Engine(); t = time.time()
res = e.explore(path)
bad = [r for _, r, _ in res if r[0] != 'ok']
print(f"NF={NF} obs={NOBS} paths={e.paths} queries={e.queries} solver_s={e.solver_s:.2f} wall={time.time()-t:.2f} bad={len(bad)} threads_alive={threading.active_count()}")
for b in bad[:3]: print(b)
